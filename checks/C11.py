#!/usr/bin/env python3-vt
"""C11: failures are reported as documented and leave objects unchanged and
usable.

Three monitors (ASan/UBSan/LSan build):
 1. error contract (pylib/errtable.py, transcribed from the manuals) on EVERY
    event of failure-rich API histories, of deterministic per-family lists of
    invalid calls and of the scripts below: failure value, errno class,
    category <-> errno, exactly one single-line report from the functions that
    report, none from the documented silent queries, none (but warnings) on
    success;
 2. unchanged on refusal: every operation on a vnadata_t, property root or
    vnacal_t is followed by a dump through the public getters; around a call
    that failed for its arguments the two dumps must be equal.  For the opaque
    vnacal_new_t a TWIN RUN: the script without the refused calls must give
    bit-identical solve result, saved file (maximum precision) and applied S;
 3. usable after a late failure: failed solve (too few standards, repeated
    standard, p-value rejection) -> -1/EDOM/one MATH report -> the missing
    standards are added / the error model is dropped -> solve succeeds and
    apply returns the device; failed vnadata_init / load / convert leave a
    destination that answers every getter and can be re-initialised, filled,
    saved, loaded, freed.
Indices returned by vnacal_add_calibration are checked against
find / get_name / get_type immediately (pylib/calmodel.py).
"""
import json
import os
import re
import sys

import numpy as np

sys.path.insert(0, os.path.join(os.path.dirname(os.path.abspath(__file__)),
                                "..", "pylib"))
import calmodel  # noqa: E402
import errtable as ET  # noqa: E402
import gen_api  # noqa: E402
import gen_contract as GC  # noqa: E402
import runner as R  # noqa: E402

PROP = "C11"
TOL = 1e-11
OBJ_TOK = re.compile(r"^\$((?:vd|pr|vc)\d+)$")
DUMP_OPS = ("dump_vnadata", "dump_property", "dump_vnacal")
# destinations of calls that may fail late in their work: "usable", not
# "unchanged", is what the property promises for them
LATE_DEST = {"vnadata_init": (0,), "vnadata_load": (0,), "vnadata_fload": (0,),
             "vnadata_convert": (1,), "vnacal_apply": (10,),
             "vnacal_apply_m": (7,), "vnaproperty_import_yaml_from_string": (0,),
             "vnaproperty_import_yaml_from_file": (0,), "vnaproperty_copy": (0,)}


def new_part():
    return dict(evaluations=0, counters={}, maxima={}, distinct=set(),
                samples=[], violations=[], inconclusive=[], harness_errors=[])


def msg_class(msg, op):
    m = msg
    if m.startswith(op + ": "):
        m = m[len(op) + 2:]
    m = re.sub(r"0x[0-9a-fA-F.p+-]+|[-+]?\d+(\.\d+)?([eE][-+]?\d+)?", "N", m)
    m = re.sub(r"\"[^\"]*\"|'[^']*'", "Q", m)
    m = re.sub(r"^\S+\.(s\dp|ts|npd|vnacal|yaml)\b", "FILE", m)
    return m[:48]


ALIAS_OPS = {"vnacal_add_calibration_own_name": "vnacal_add_calibration",
             "vnadata_set_format_own": "vnadata_set_format",
             "vnacal_save_own_filename": "vnacal_save",
             "vnadata_set_fz0_vector_own": "vnadata_set_fz0_vector",
             "vnadata_set_z0_vector_own": "vnadata_set_z0_vector",
             "vnadata_set_frequency_vector_own":
                 "vnadata_set_frequency_vector"}


def contract(res, text, part, must_fail=None, usage=None, where=""):
    """monitor 1 on every event of one case"""
    cnt = part["counters"]
    must_fail = must_fail or {}
    usage = usage or set()
    for ev in res.events:
        if "ret" not in ev:
            continue
        op = ev["op"]
        if op in ALIAS_OPS:
            # harness ops that call a documented function with a string the
            # library returned itself: judged by that function's contract
            op = ALIAS_OPS[op]
            ev = dict(ev, op=op)
        if op not in ET.TABLE and op not in ET.QUIET_OBSERVERS:
            if op not in ET.DRIVER_OPS:
                cnt["untabled:" + op] = cnt.get("untabled:" + op, 0) + 1
            continue
        ln = ev.get("i")
        ki = ln in must_fail
        f = ET.failed(ev, ki)
        cnt["events_checked"] = cnt.get("events_checked", 0) + 1
        if f:
            cnt["failing_events"] = cnt.get("failing_events", 0) + 1
            cb = ET.errors_of(ev)
            part["distinct"].add((op, ev.get("errno"),
                                  cb[0][0] if cb else "-",
                                  msg_class(cb[0][1], op) if cb else "-"))
        for what, detail in ET.check_event(ev, ki, ln in usage):
            part["violations"].append(dict(
                key="%s:%s:%s" % (PROP, what, op),
                desc="%s%s line %d: %s\n-> %s\n%s" % (
                    where, op, ln, text.split("\n")[ln - 1][:200],
                    json.dumps(ev)[:400], detail),
                script=text))


def canon(x):
    return json.dumps(x, sort_keys=True)


def unchanged(res, text, part):
    """monitor 2 on one case: dumps around failed calls must be equal"""
    cnt = part["counters"]
    lines = text.split("\n")
    last = {}      # obj -> canonical dump
    clean = {}     # obj -> True if nothing touched it since `last`
    pending = {}   # obj -> (event, dump before)
    for ev in res.events:
        ln = ev.get("i")
        if not isinstance(ln, int) or ln < 1 or ln > len(lines):
            continue
        toks = calmodel.split_tokens(lines[ln - 1])
        if not toks:
            continue
        words = [t[0] for t in toks]
        quoted = [t[1] for t in toks]
        first = words[0]
        bind = None
        if not quoted[0] and "=" in first:
            bind, first = first.split("=", 1)
        op = first
        args = words[1:]
        objs = []
        for k, (w, q) in enumerate(zip(args, quoted[1:])):
            m = None if q else OBJ_TOK.match(w)
            if m:
                objs.append((k, m.group(1)))
        if op in DUMP_OPS:
            if "out" not in ev or not objs:
                continue
            o = objs[0][1]
            d = canon(ev["out"])
            p = pending.pop(o, None)
            if p is not None:
                pev, before = p
                cnt["refusals_with_dumps"] = cnt.get(
                    "refusals_with_dumps", 0) + 1
                part["distinct"].add(("unchanged", pev["op"], pev.get("errno")))
                if before != d:
                    part["violations"].append(dict(
                        key="%s:changed-by-refused-call:%s" % (PROP, pev["op"]),
                        desc="%s line %d: %s\n-> %s\nfailed, but the %s it "
                             "was called on answers its getters differently:\n"
                             " before: %s\n after:  %s" % (
                                 pev["op"], pev["i"],
                                 lines[pev["i"] - 1][:200],
                                 json.dumps(pev)[:300], o[:2], before[:600],
                                 d[:600]),
                        script=text))
            last[o] = d
            clean[o] = True
            continue
        if "ret" not in ev:
            for _, o in objs:
                clean[o] = False
            continue
        f = ET.failed(ev, False) if op in ET.TABLE else False
        late = LATE_DEST.get(op, ())
        seen = set()
        for k, o in objs:
            if o in seen:
                clean[o] = False
                pending.pop(o, None)
                continue
            seen.add(o)
            if f and clean.get(o) and k not in late and \
                    not any(k2 in late and o2 == o for k2, o2 in objs):
                pending[o] = (ev, last[o])
            else:
                pending.pop(o, None)
            clean[o] = False
        if bind and OBJ_TOK.match("$" + bind):
            clean[bind] = False
            pending.pop(bind, None)


def index_model(res, text, part, strict=False):
    mon = calmodel.Monitor(strict_props=strict)
    for what, fn, detail in mon.feed(text, res.events):
        part["violations"].append(dict(
            key="%s:%s:%s" % (PROP, what, fn),
            desc="%s: %s" % (fn, detail), script=text))
    for k in ("add_calibration_ok", "find_ok", "getter_live"):
        if k in mon.counts:
            part["counters"]["index_" + k] = part["counters"].get(
                "index_" + k, 0) + mon.counts[k]


def run_and_std(binary, cases, wd, part):
    results = R.run_cases(binary, cases, wd, timeout=1800, watchdog=60)
    ok = {}
    for cid, text in cases:
        res = results[cid]
        v, inc = R.standard_violations(res, text, PROP)
        part["violations"] += v
        part["inconclusive"] += inc
        if res.status in ("driver_error", "notrun"):
            part["harness_errors"].append("%s: %s %s" % (cid, res.status,
                                                         res.detail))
            continue
        ok[cid] = res
    return ok


# ----------------------------------------------------------------------
def work_hist(chunk_id, seed, n, binary, wd, part):
    cases, gens = [], {}
    for k in range(n):
        rng = np.random.default_rng([seed, chunk_id, k, 1111])
        g = GC.ContractGen(rng)
        w = [(0.3, 0.2, 0.5), (0.5, 0.2, 0.3), (0.1, 0.5, 0.4),
             (0.1, 0.05, 0.85)][k % 4]
        text = g.generate(40, w)
        cid = "h%d_%d" % (chunk_id, k)
        cases.append((cid, text))
        gens[cid] = g
    ok = run_and_std(binary, cases, wd, part)
    for cid, text in cases:
        if cid not in ok:
            continue
        res, g = ok[cid], gens[cid]
        part["evaluations"] += 1
        usage = {ln for ln, (kind, why) in g.must_fail.items()
                 if "no such file" not in why}
        contract(res, text, part, g.must_fail, usage)
        unchanged(res, text, part)
        index_model(res, text, part)
        if not part["samples"]:
            part["samples"].append(dict(kind="history", script=[
                l[:140] for l in text.split("\n") if not l.startswith("buf ")
            ][:30]))


def work_family(chunk_id, seed, n, binary, wd, part):
    cases, metas = [], {}
    for k in range(n):
        rng = np.random.default_rng([seed, chunk_id, k, 2222])
        for name, text, marks in GC.family_scripts(rng):
            cid = "f%d_%d_%s" % (chunk_id, k, name)
            cases.append((cid, text))
            metas[cid] = marks
    ok = run_and_std(binary, cases, wd, part)
    for cid, text in cases:
        if cid not in ok:
            continue
        res, marks = ok[cid], metas[cid]
        part["evaluations"] += 1
        must = {ln: ("x", m) for ln, m in marks.items()}
        usage = {ln for ln, m in marks.items() if m == "!"}
        contract(res, text, part, must, usage, where="[family] ")
        unchanged(res, text, part)
        index_model(res, text, part)
        part["counters"]["family_invalid_calls"] = part["counters"].get(
            "family_invalid_calls", 0) + len(marks)
        if len(part["samples"]) < 1 and cid.endswith("vnacal"):
            part["samples"].append(dict(kind="family:vnacal", invalid_calls=[
                l[:140] for i, l in enumerate(text.split("\n"), 1)
                if i in marks][:25]))


def outputs_of(res, lines):
    out = []
    for k in ("solve", "addcal", "file", "apply", "dump"):
        if k in lines:
            ev = res.ev(lines[k])
            out.append((k, None if ev is None else
                        canon([ev.get("ret"), ev.get("errno"), ev.get("cb"),
                               ev.get("out")])))
    return out


def judge_dut(sc, kappa, duts, res, lines, tol, what, text, part):
    d = res.ev(lines["dump"])
    a = res.ev(lines["apply"])
    if a is None or a.get("ret") != 0 or d is None or "out" not in d:
        part["violations"].append(dict(
            key="%s:%s:apply-failed" % (PROP, what),
            desc="%s %dx%d F=%d: apply after the repaired solve: %s" % (
                sc.ctype, sc.r, sc.c, sc.F, a), script=text))
        return
    out = d["out"]
    p = sc.p
    worst = float("inf")
    if (out["rows"], out["cols"], out["F"]) == (p, p, sc.F):
        worst = 0.0
        for f in range(sc.F):
            got = np.array([complex(x, y) for x, y in out["data"][f]]
                           ).reshape(p, p)
            err = float(np.max(np.abs(got - duts[f]))) \
                if np.all(np.isfinite(got)) else float("inf")
            worst = max(worst, err)
    rel = worst / (tol * (1 + kappa))
    part["maxima"][what + "_err_over_tol"] = max(
        part["maxima"].get(what + "_err_over_tol", 0.0), rel)
    if not rel <= 1.0:
        part["violations"].append(dict(
            key="%s:%s:wrong-s-parameters" % (PROP, what),
            desc="%s %dx%d F=%d: corrected S differs from the device by %.3g "
                 "(kappa %.3g)" % (sc.ctype, sc.r, sc.c, sc.F, worst, kappa),
            script=text))


def work_twin(chunk_id, seed, n, binary, wd, part):
    cnt = part["counters"]
    cases, gens = [], {}
    for k in range(n):
        rng = np.random.default_rng([seed, chunk_id, k, 3333])
        g = GC.TwinGen(rng)
        text = g.generate()
        if text is None:
            continue
        cid = "t%d_%d" % (chunk_id, k)
        cases.append((cid, text))
        gens[cid] = g
    ok = run_and_std(binary, cases, wd, part)
    second, info = [], {}
    for cid, text in cases:
        if cid not in ok:
            continue
        res, g = ok[cid], gens[cid]
        must = {ln: ("int", "refusal candidate") for ln in g.cand}
        contract(res, text, part, must, set(g.cand) - g.math, where="[twin] ")
        refused = set()
        for ln in g.cand:
            ev = res.ev(ln)
            if ev is not None and ET.failed(ev, True):
                refused.add(ln)
        cnt["twin_refused_calls"] = cnt.get("twin_refused_calls", 0) + \
            len(refused)
        for ln in g.lines["add"]:
            ev = res.ev(ln)
            if ev is None or ev.get("ret") != 0:
                part["violations"].append(dict(
                    key="%s:valid-call-refused:%s" % (
                        PROP, ev["op"] if ev else "?"),
                    desc="[twin] valid standard refused: %s" % ev,
                    script=text))
        if not refused:
            continue
        # line numbers of the outputs in the twin
        def shift(ln):
            return ln - sum(1 for r_ in refused if r_ < ln)
        tlines = {k: shift(v) for k, v in g.lines.items() if k != "add"}
        second.append(("u" + cid[1:], GC.TwinGen.without(text, refused)))
        info["u" + cid[1:]] = (cid, tlines, refused)
    ok2 = run_and_std(binary, second, wd + "b", part)
    for cid2, text2 in second:
        if cid2 not in ok2:
            continue
        cid, tlines, refused = info[cid2]
        g, text = gens[cid], dict(cases)[cid]
        a = outputs_of(ok[cid], g.lines)
        b = outputs_of(ok2[cid2], tlines)
        part["evaluations"] += 1
        part["distinct"].add(("twin", g.sc.ctype, g.sc.p, len(refused) > 3))
        cnt["twin_pairs"] = cnt.get("twin_pairs", 0) + 1
        for (k, va), (_, vb) in zip(a, b):
            if va != vb:
                ops = sorted({ok[cid].ev(r_)["op"] for r_ in refused})
                part["violations"].append(dict(
                    key="%s:refused-call-changed-new-calibration:%s" % (
                        PROP, k),
                    desc="%s %dx%d F=%d: the script with %d refused calls "
                         "(%s) and the same script without them differ in "
                         "the %s output:\n with:    %s\n without: %s" % (
                             g.sc.ctype, g.sc.r, g.sc.c, g.sc.F, len(refused),
                             ", ".join(ops), k, str(va)[:300], str(vb)[:300]),
                    script=text))
                break
        sv = ok[cid].ev(g.lines["solve"])
        if sv is not None and sv.get("ret") == 0 and "dump" in g.lines:
            judge_dut(g.sc, g.kappa, g.duts, ok[cid], g.lines, TOL, "twin",
                      text, part)
        if len(part["samples"]) < 1:
            part["samples"].append(dict(
                kind="twin", type=g.sc.ctype, ports=g.sc.p, F=g.sc.F,
                refused=[text.split("\n")[r_ - 1][:120]
                         for r_ in sorted(refused)][:8]))


def work_late(chunk_id, seed, n, binary, wd, part):
    cnt = part["counters"]
    cases, metas = [], {}
    for k in range(n):
        rng = np.random.default_rng([seed, chunk_id, k, 4444])
        mode = ["few", "singular", "pvalue", "few"][k % 4]
        text, meta = GC.late_solve(rng, mode)
        if text is not None:
            cid = "s%d_%d" % (chunk_id, k)
            cases.append((cid, text))
            metas[cid] = meta
        text, L = GC.late_vnadata(rng)
        cid = "d%d_%d" % (chunk_id, k)
        cases.append((cid, text))
        metas[cid] = L
    ok = run_and_std(binary, cases, wd, part)
    for cid, text in cases:
        if cid not in ok:
            continue
        res, meta = ok[cid], metas[cid]
        part["evaluations"] += 1
        if not part["samples"] and cid.startswith("s"):
            part["samples"].append(dict(
                kind="late failure: solve", mode=meta["mode"],
                type=meta["sc"].ctype, ports=meta["sc"].p,
                standards=len(meta["sc"].stds),
                script=[l[:100] for l in text.split("\n")
                        if l and not l.startswith("buf ")][:30]))
        contract(res, text, part, where="[late] ")
        if cid.startswith("s"):
            judge_late_solve(res, text, meta, part)
        else:
            judge_late_vnadata(res, text, meta, part)


def judge_late_solve(res, text, meta, part):
    cnt = part["counters"]
    sc, L, mode = meta["sc"], meta["lines"], meta["mode"]

    def bad(what, desc):
        part["violations"].append(dict(
            key="%s:late-solve:%s" % (PROP, what),
            desc="[%s] %s %dx%d F=%d: %s" % (mode, sc.ctype, sc.r, sc.c, sc.F,
                                             desc), script=text))
    fs = res.ev(L["fail_solve"])
    if fs is None:
        return
    if fs.get("ret") == 0:
        cnt["late_solve_did_not_fail:" + mode] = cnt.get(
            "late_solve_did_not_fail:" + mode, 0) + 1
    else:
        cnt["late_solve_failed:" + mode] = cnt.get(
            "late_solve_failed:" + mode, 0) + 1
        part["distinct"].add(("late", mode, sc.ctype))
        cb = ET.errors_of(fs)
        if fs.get("ret") != -1 or fs.get("errno") != "EDOM" or \
                len(cb) != 1 or cb[0][0] != "MATH":
            bad("failure-report", "the failed solve was reported as %s" % fs)
        fa = res.ev(L["fail_addcal"])
        if fa is not None and fa.get("ret") != -1:
            bad("failed-solve-left-calibration",
                "vnacal_add_calibration after the failed solve returned %r"
                % fa.get("ret"))
    sv = res.ev(L["solve"])
    if sv is None or sv.get("ret") != 0:
        bad("retry-failed", "after %s the repaired solve -> %s" % (
            "dropping the error model" if mode == "pvalue" else
            "adding the missing standards", sv))
        return
    ac = res.ev(L["addcal"])
    if ac is None or not isinstance(ac.get("ret"), int) or ac["ret"] < 0:
        bad("retry-add-calibration", str(ac))
        return
    if "dump" in L:
        tol = TOL if mode != "pvalue" else 1e-4
        judge_dut(sc, meta["kappa"], meta["duts"], res, L, tol,
                  "late-solve", text, part)


def judge_late_vnadata(res, text, L, part):
    cnt = part["counters"]
    for ln, kind in L["fails"]:
        ev = res.ev(ln)
        if ev is None:
            continue
        part["distinct"].add(("late-vnadata", kind))
        if ev.get("ret") != -1:
            part["violations"].append(dict(
                key="%s:invalid-accepted:%s" % (PROP, ev["op"]),
                desc="[late %s] expected failure: %s" % (kind, ev),
                script=text))
        else:
            cnt["late_vnadata_failures"] = cnt.get(
                "late_vnadata_failures", 0) + 1
    for ln in L["after"]:
        ev = res.ev(ln)
        if ev is None or "ret" not in ev:
            continue
        if ev.get("ret") != 0 or ET.errors_of(ev) or \
                (ev["op"] == "dump_vnadata" and '"bad"' in canon(ev.get("out"))):
            part["violations"].append(dict(
                key="%s:unusable-after-failure:%s" % (PROP, ev["op"]),
                desc="valid use after a failed init/load/convert: line %d %s "
                     "-> %s" % (ln, text.split("\n")[ln - 1], ev),
                script=text))


def work_handles(chunk_id, seed, n, binary, wd, part):
    """the C16 histories (many successful table operations): contract on
    every event, returned indices against the model"""
    import gen_handles
    cases = []
    for k in range(n):
        rng = np.random.default_rng([seed, chunk_id, k, 5555])
        g = gen_handles.HandleGen(rng)
        cases.append(("g%d_%d" % (chunk_id, k), g.generate(60)))
    ok = run_and_std(binary, cases, wd, part)
    for cid, text in cases:
        if cid not in ok:
            continue
        part["evaluations"] += 1
        contract(ok[cid], text, part, where="[handles] ")
        index_model(ok[cid], text, part, strict=True)
        if not part["samples"]:
            part["samples"].append(dict(kind="table history", script=[
                l[:120] for l in text.split("\n")
                if l and not l.startswith(("buf ", "dump_"))][:25]))


def work_iofault(chunk_id, seed, n, binary, wd, part):
    """every function that writes or reads a file runs once under a
    persistent stdio fault (fi build, harness/failio.c) and is then used
    again without it: contract of the reported failure, usable afterwards"""
    import gen_iofault
    cases, metas = [], {}
    for k in range(n):
        rng = np.random.default_rng([seed, chunk_id, k, 6666])
        name, text, L = gen_iofault.generate(rng, chunk_id + k)
        cid = "io%d_%d_%s" % (chunk_id, k, name)
        cases.append((cid, text))
        metas[cid] = L
    ok = run_and_std(binary, cases, wd, part)
    for cid, text in cases:
        if cid not in ok:
            continue
        part["evaluations"] += 1
        contract(ok[cid], text, part, where="[iofault] ")
        gen_iofault.judge(ok[cid], text, metas[cid], PROP, part)
        if not part["samples"]:
            L = metas[cid]
            lines = text.split("\n")
            part["samples"].append(dict(
                kind="iofault:" + L["kind"],
                fault=lines[L["arm"] - 1],
                faulted_call=str(ok[cid].ev(L["fault"]))[:300]))


def work_stale(chunk_id, seed, n, binary, wd, part):
    """a standard that is refused leaves nothing behind that a later call can
    trip over: T16 / U16 with measurement-error modelling refuse a standard
    whose S matrix is partly unknown only after its parameters have been
    looked at; the vector parameter it named covers the first band only, and
    the band is then widened.  With no accepted standard that uses the
    parameter, the wider frequency vector must be accepted, exactly as in the
    same history without the refused call."""
    cases, metas = [], {}
    for k in range(n):
        rng = np.random.default_rng([seed, chunk_id, k, 7777])
        ctype = "T16" if (chunk_id + k) % 2 == 0 else "U16"
        F = int(rng.integers(2, 5))
        f0 = float(10 ** rng.uniform(8, 9.5))
        freqs = list(np.linspace(f0, f0 * rng.uniform(1.5, 2.5), F))
        wide = list(np.linspace(f0, freqs[-1] * rng.uniform(1.5, 3.0), F))
        s = R.Script()
        L = {}
        s.op("vc=vnacal_create")
        s.op("vn=vnacal_new_alloc $vc %s 2 2 %d" % (ctype, F))
        s.rvec("freq", freqs)
        s.op("vnacal_new_set_frequency_vector $vn @freq")
        s.rvec("nf", [1e-4])
        s.op("vnacal_new_set_m_error $vn NULL 1 @nf NULL")
        s.cvec("pg", [complex(0.3, 0.1 * i) for i in range(F)])
        s.op("pv=vnacal_make_vector_parameter $vc @freq %d @pg" % F)
        s.cmat("m", [[0.1 + 0.1j] * F for _ in range(4)])
        L["refused"] = s.op("vnacal_new_add_single_reflect_m $vn @m 2 2 $pv %d"
                            % int(rng.integers(1, 3)))
        s.rvec("wide", wide)
        L["widen"] = s.op("vnacal_new_set_frequency_vector $vn @wide")
        cid = "st%d_%d" % (chunk_id, k)
        cases.append((cid, s.text()))
        metas[cid] = (L, ctype)
    ok = run_and_std(binary, cases, wd, part)
    for cid, text in cases:
        if cid not in ok:
            continue
        L, ctype = metas[cid]
        er, ew = ok[cid].ev(L["refused"]), ok[cid].ev(L["widen"])
        if er is None or ew is None or "ret" not in ew:
            continue
        part["evaluations"] += 1
        part["distinct"].add(("stale", ctype))
        if er.get("ret") == 0:
            # (the standard was accepted after all: nothing to say)
            continue
        part["counters"]["stale_registration_probes"] = part["counters"].get(
            "stale_registration_probes", 0) + 1
        if ew.get("ret") != 0:
            part["violations"].append(dict(
                key="%s:refused-standard-left-parameter:%s" % (PROP, ctype),
                desc="%s with measurement-error modelling refused a partly "
                     "specified standard (%s); the vector parameter it named "
                     "then made vnacal_new_set_frequency_vector refuse a "
                     "wider band although no accepted standard uses it: %s"
                     % (ctype, (er.get("cb") or [[None, ""]])[0][1][:120],
                        ew), script=text))


KINDS = {"stale": work_stale, "iofault": work_iofault, "handles": work_handles, "hist": work_hist, "family": work_family, "twin": work_twin,
         "late": work_late}


def work(chunk_id, payload):
    seed, kind, n, binary, workroot, want_sample = payload
    part = new_part()
    wd = os.path.join(workroot, "w%s%d" % (kind[:2], chunk_id))
    KINDS[kind](chunk_id, seed, n, binary, wd, part)
    if not want_sample:
        part["samples"] = []
    return part


def main():
    chk = R.Check(PROP)
    binary = chk.build("asan")
    fibin = chk.build("fi")
    if chk.tier == "quick":
        plan = [("hist", 32, 80), ("family", 4, 6), ("twin", 16, 30),
                ("late", 12, 24), ("handles", 8, 24), ("iofault", 16, 27),
                ("stale", 2, 8)]
    else:
        plan = [("hist", 256, 200), ("family", 16, 16), ("twin", 128, 60),
                ("late", 64, 60), ("handles", 48, 40), ("iofault", 128, 90),
                ("stale", 8, 40)]
    payloads = []
    for kind, nchunks, per in plan:
        per = max(1, int(per * chk.args.scale))
        payloads += [(chk.seed, kind, per, fibin if kind == "iofault"
                      else binary, chk.workroot, i == 0)
                     for i in range(nchunks)]
    # long chunks first
    for part in R.pmap(work, payloads):
        chk.merge(part)
    unt = [k for k in chk.counters if k.startswith("untabled:")]
    if unt:
        chk.harness_errors.append("API functions missing from errtable: %s"
                                  % unt)
    chk.finish(
        rule="(1) histories of 40 operations over vnadata_t / property roots "
             "/ vnacal_t with vnacal_new_t (gen_api domains: valid, boundary, "
             "invalid) with a dump after every operation, deterministic "
             "per-family lists of documented-invalid calls, (2) calibration "
             "scenarios with refused vnacal_new_* calls interleaved and their "
             "twin without them, (3) solve failures (too few / repeated "
             "standards / p-value) repaired and applied, failed vnadata "
             "init/load/convert followed by full reuse, (4) every file "
             "writing / reading function under a persistent stdio fault "
             "(disk full after N bytes, read error after N bytes, failing "
             "close, failing open; N anywhere in the file and around buffer "
             "boundaries) and then again without it; distinct = distinct "
             "(function, errno, category, message class) of failing calls + "
             "(function, errno) of refusals compared by dumps + twin and "
             "late-failure shapes",
        min_events=40,
        assumptions=["the error contract is the one in pylib/errtable.py "
                     "(transcribed from the six manual pages)",
                     "calls with NULL / dangling object pointers are outside "
                     "the property",
                     "errno after a successful call is not specified",
                     "allocation failures are covered by C12",
                     "I/O faults are persistent (once a write or read fails "
                     "every later one on that stream fails too); a fault "
                     "must make vnadata_save / vnacal_save fail, for the f* "
                     "functions and for read faults only the contract of a "
                     "reported failure and the usability afterwards are "
                     "judged"])


if __name__ == "__main__":
    main()
