#!/usr/bin/env python3-vt
"""C07: calibration files round-trip (vnacal_save then vnacal_load gives an
equivalent vnacal_t).

Monitor: vnacal_t objects with 0..6 calibrations are built in the driver
(ASan/UBSan/LSan) from cheap calgen solves over all 8 types and dims up to 3
ports (rectangular shapes included), 1..5 frequencies, complex z0, with add /
replace-by-name / delete histories, global and per-calibration property trees
and fprecision / dprecision from {default, 1..40, VNACAL_MAX_PRECISION}.  The
object is saved, loaded into a new vnacal_t, both are re-saved at maximum
precision and probe measurements are applied through both.  A second script
loads the saved text again together with the same content re-spelt by
pylib/vcalfile.py ("#VNACAL 3.0", "#VNACAL 2.0" with the old `e` matrices for
the E12 calibrations, and the current version in the other YAML style).

Oracle (no libvna involved): everything is judged on the event log and on the
saved texts as read by the independent reader pylib/vcalfile.py.
"""
import copy
import math
import os
import sys

import numpy as np

sys.path.insert(0, os.path.join(os.path.dirname(os.path.abspath(__file__)),
                                "..", "pylib"))
import calgen  # noqa: E402
import docmodel  # noqa: E402
import physics  # noqa: E402
import runner as R  # noqa: E402
import vcalfile as V  # noqa: E402
from runner import Script, cx, qs  # noqa: E402

PROP = "C07"

_QS = [("\\x%02x" % c) for c in range(256)]
for _c in range(0x20, 0x7f):
    _QS[_c] = chr(_c)
_QS[0x22], _QS[0x5c], _QS[0] = '\\"', "\\\\", "\\0"


def qsb(data):
    """runner.qs for large byte strings"""
    return '"' + "".join(map(_QS.__getitem__, data)) + '"'

MAXP = 1000                      # VNACAL_MAX_PRECISION
DEFAULT_FP, DEFAULT_DP = 7, 6    # vnacal(3)
KAPPA_MAX = 1e4
MEANING_TOL = 1e-6               # saved terms vs the physical model
APPLY_FLOOR = 1e-8

SHAPES = ["empty", "adds", "adds", "replace", "del-first", "del-mid",
          "del-last", "del-all", "del-add", "alias", "mixed", "mixed",
          "del-replace", "del-replace"]
EDGE_PREC = [1, 2, 3, 5, 6, 7, 8, 15, 16, 17, 18, 23, 24, 25, 26, 30, 39, 40]


# ----------------------------------------------------------------------
# generators
# ----------------------------------------------------------------------
BIG_PREC = [41, 64, 100, 317, 999]
# outside 1..VNACAL_MAX_PRECISION: the manual promises nothing; a setter that
# accepts one of these makes vnacal_save responsible for it
ODD_PREC = [0, -1, 1001, 2000, 5000, 2 ** 31 - 32, 2 ** 31 - 1]


def rand_precision(rng):
    x = rng.random()
    if x < 0.22:
        return MAXP
    if x < 0.25:
        return int(rng.choice(BIG_PREC))
    if x < 0.55:
        return int(rng.choice(EDGE_PREC))
    return int(rng.integers(1, 41))


def rand_calls(rng):
    """sequence of setter arguments; planned effective value = the last one
    inside 1..VNACAL_MAX_PRECISION (None = the default)"""
    if rng.random() < 0.10:
        return []
    calls = []
    if rng.random() < 0.12:
        calls.append(rand_precision(rng))
    calls.append(rand_precision(rng))
    if rng.random() < 0.03:
        calls.append(int(rng.choice(ODD_PREC)))
    return calls


def planned(calls):
    ok = [p for p in calls if 1 <= p <= MAXP]
    return ok[-1] if ok else None


def eff(p, default):
    return default if p is None else p


def round_sig(x, p):
    """value of x after printing with p significant figures"""
    if p >= 17:
        return x
    return float("%.*e" % (p - 1, x))


def gen_freqs(rng, F, fp):
    """F ascending frequencies that stay strictly ascending when written
    with fp significant figures"""
    for _ in range(200):
        lo = rng.uniform(-2.0, 11.0)
        span = rng.uniform(0.2, min(6.0, 11.5 - lo)) if F > 1 else 0.0
        f = np.sort(10.0 ** rng.uniform(lo, lo + span, F))
        if rng.random() < 0.3:
            f = np.array([round_sig(float(x), int(rng.integers(1, 5)))
                          for x in f])
        if rng.random() < 0.05:
            f[0] = 0.0
        r = [round_sig(float(x), fp) for x in f]
        if all(r[i] < r[i + 1] for i in range(F - 1)) and \
                all(f[i] < f[i + 1] for i in range(F - 1)):
            return f
    return np.array([(k + 1) * 1.0e6 for k in range(F)])


def rand_z0(rng):
    k = rng.integers(0, 5)
    if k == 0:
        return 50.0 + 0j
    if k == 1:
        return complex(float(rng.choice([75.0, 1.0, 600.0, 12.5])), 0.0)
    if k == 2:
        return complex(rng.uniform(1, 200), rng.uniform(-80, 80))
    if k == 3:
        return complex(50.0, float(rng.choice([-3.0, 0.125, 1e-3])))
    return complex(10 ** rng.uniform(-2, 4), 10 ** rng.uniform(-3, 3) *
                   rng.choice([-1, 1]))


def rand_shape(rng, ctype):
    shapes = [(r, c) for r in range(1, 4) for c in range(1, 4)
              if physics.dims_ok(ctype, r, c)]
    w = np.array([1.0 / (1 + 0.5 * max(r, c)) for r, c in shapes])
    return shapes[int(rng.choice(len(shapes), p=w / w.sum()))]


def reuse_scenario(rng, sc, fp):
    """private copy of a verified scenario with new frequencies and z0 (the
    error networks and standards do not depend on either)"""
    keep = sc.rng
    sc.rng = None
    cp = copy.deepcopy(sc)
    sc.rng = keep
    cp.rng = rng
    cp.freqs = gen_freqs(rng, cp.F, fp)
    cp.z0 = rand_z0(rng)
    for st in cp.stds:
        for row in st.sp:
            for prm in row:
                prm.var = None
    return cp


def gen_scenario(rng, ctype, fp, pool=None):
    if pool is not None and pool.get(ctype) and rng.random() < 0.55:
        lst = pool[ctype]
        return reuse_scenario(rng, lst[int(rng.integers(0, len(lst)))], fp)
    sc = gen_scenario_new(rng, ctype, fp)
    if sc is not None and pool is not None:
        pool.setdefault(ctype, []).append(sc)
        return reuse_scenario(rng, sc, fp)
    return sc


def gen_scenario_new(rng, ctype, fp):
    for _ in range(12):
        r, c = rand_shape(rng, ctype)
        F = int(rng.choice([1, 1, 2, 2, 3, 4, 5]))
        if max(r, c) == 3 and ctype in ("T16", "U16"):
            F = min(F, 2)
        sc = calgen.Scenario(ctype, r, c, F, rng)
        sc.freqs = gen_freqs(rng, F, fp)
        sc.z0 = rand_z0(rng)
        if rng.random() < 0.12:
            # an instrument with (numerically) no crosstalk or directivity
            # error at all: the leakage terms come out as subnormal numbers,
            # which have a decimal representation like any other value
            tiny = 10.0 ** rng.uniform(-312, -308)
            for en in sc.enet:
                if ctype in physics.COLUMN_TYPES:
                    en.cols = [(el * tiny, er, em, et)
                               for (el, er, em, et) in en.cols]
                else:
                    en.El = en.El * tiny
            sc.tiny_leakage = True
        sc.sufficient_recipe(extras=int(rng.integers(0, 2)))
        sc.choose_entries()
        ok, kappa = sc.well_determined(KAPPA_MAX)
        if ok:
            sc.kappa = kappa
            return sc
    return None


KEYS = ["a", "B2", "key two", "k:colon", "k-dash", "- lead", "#hash", "a #b",
        "q'uote", 'd"q', "~", "null", "true", "1", "üñî",
        "日本", "multi\nline", " lead", "trail ", "a: b", "{br}",
        "[sq]", "dot.ted", "eq=ual", "back\\slash", "?", "&anchor", "*star",
        "!bang", "%pct", "@at", "`tick", "comma,", "x" * 70]
VALUES = ["", " ", "plain", "two words", "a: b", "- x", "#c", "a #b", "~",
          "null", "NULL", "Null", "line1\nline2", "trail\n", "\nlead",
          "a\n\nb", "it's", '"q"', "'", '"', "é日本語",
          "\U0001f600", "1e3", "true", "0x1p+0", "   ", "tab\there", " lead",
          "trail ", "k: v\n", "- a\n- b", ":", "-", "?", "|", ">", "%", "@",
          "{a}", "[b]", "a,b", "&a", "*a", "!t", "\\", "\\n",
          "word " * 25, "x" * 120, "fold me " * 14 + "\nsecond " * 12,
          "+1.5e+00 -2.5e-01j"]


def rand_tree(rng, depth):
    x = rng.random()
    if depth <= 0 or x < 0.35:
        if rng.random() < 0.1:
            return None
        return VALUES[int(rng.integers(0, len(VALUES)))]
    if x < 0.75:
        d = {}
        for _ in range(int(rng.choice([1, 2, 2, 3, 4]))):
            k = KEYS[int(rng.integers(0, len(KEYS)))]
            d[k] = rand_tree(rng, depth - 1)
        return d
    if x < 0.93:
        return [rand_tree(rng, depth - 1)
                for _ in range(int(rng.choice([1, 2, 3])))]
    return {} if rng.random() < 0.5 else []


def rand_props(rng):
    x = rng.random()
    if x < 0.25:
        return "none"
    d = {}
    for _ in range(int(rng.choice([1, 1, 2, 3, 5]))):
        d[KEYS[int(rng.integers(0, len(KEYS)))]] = rand_tree(
            rng, int(rng.choice([0, 1, 2, 3])))
    return d


def prop_lines(var, doc):
    """build doc in the driver-owned root $var (descriptor and value as
    separate %s arguments)"""
    out = []

    def b(s):
        return s.encode("utf-8")

    def rec(path, node):
        if isinstance(node, dict):
            if not node:
                out.append("vnaproperty_set_subtree $%s %s" % (
                    var, qs((path or b"") + b"{}")))
            for k, v in node.items():
                rec((path + b"." if path else b"") + docmodel.quote(b(k)), v)
        elif isinstance(node, list):
            if not node:
                out.append("vnaproperty_set_subtree $%s %s" % (
                    var, qs(path + b"[]")))
            for i, v in enumerate(node):
                rec(path + b"[%d]" % i, v)
        elif node is None:
            out.append("vnaproperty_set $%s %s" % (var, qs(path + b"#")))
        else:
            out.append("vnaproperty_set_kv $%s %s %s" % (
                var, qs(path or b"."), qs(b(node))))
    rec(b"", doc)
    return out


NAMES = ["", "cal", "Cal 2", "short-open-load", "très précis", "#1",
         "a: b", "- dash", "~", "null", "123", "1.5e3", "true", "it's",
         'say "x"', " lead", "trail ", "two\nlines", "日本語",
         "[x]", "{y}", "a,b", "long " * 20, "%YAML", "---", "x#y", "k:",
         "?", "|", ">", "&a", "*b", "!c", "@d", "`e", "tab\tname"]


class Entry(object):
    def __init__(self, name, scen, var):
        self.name, self.scen, self.var = name, scen, var
        self.props = "none"


class Case(object):
    pass


def gen_case(rng, forced_type=None, forced_shape=None, pool=None):
    cs = Case()
    cs.shape = forced_shape or SHAPES[int(rng.integers(0, len(SHAPES)))]
    if rng.random() < 0.10:
        cs.fp_calls, cs.dp_calls = [], []
    else:
        cs.fp_calls, cs.dp_calls = rand_calls(rng), rand_calls(rng)
    cs.fp, cs.dp = planned(cs.fp_calls), planned(cs.dp_calls)
    fpe = eff(cs.fp, DEFAULT_FP)
    cs.scens = []
    cs.steps = []        # ("add", entry) | ("delete", entry)
    cs.skipped = 0
    live = []            # entries
    names = list(rng.permutation(len(NAMES)))
    e12_heavy = rng.random() < 0.15

    def new_scen():
        if forced_type is not None and not cs.scens:
            t = forced_type
        elif e12_heavy and rng.random() < 0.7:
            t = "E12"
        else:
            t = physics.TYPES[int(rng.integers(0, 8))]
        sc = gen_scenario(rng, t, fpe, pool)
        if sc is None:
            cs.skipped += 1
            return None
        cs.scens.append(sc)
        return len(cs.scens) - 1

    def add(name=None, scen=None):
        if scen is None:
            scen = new_scen()
            if scen is None:
                return None
        if name is None:
            name = NAMES[names.pop()]
        e = Entry(name, scen, "c%d" % len(cs.steps))
        for old in [x for x in live if x.name == name]:
            live.remove(old)          # replaced by name
        cs.steps.append(("add", e))
        live.append(e)
        return e

    def delete(e):
        cs.steps.append(("delete", e))
        live.remove(e)

    sh = cs.shape
    if sh == "empty":
        pass
    elif sh == "adds":
        for _ in range(int(rng.choice([1, 1, 2, 3, 4, 6]))):
            add()
    elif sh == "replace":
        for _ in range(int(rng.integers(1, 5))):
            add()
        for _ in range(int(rng.integers(1, 3))):
            if live:
                add(name=live[int(rng.integers(0, len(live)))].name)
    elif sh in ("del-first", "del-mid", "del-last"):
        n = int(rng.integers(3 if sh == "del-mid" else 2, 6))
        for _ in range(n):
            add()
        if len(live) >= 2:
            k = 0 if sh == "del-first" else len(live) - 1 \
                if sh == "del-last" else int(rng.integers(1, len(live) - 1)) \
                if len(live) >= 3 else 0
            delete(live[k])
    elif sh == "del-all":
        for _ in range(int(rng.integers(1, 4))):
            add()
        for e in [live[i] for i in rng.permutation(len(live))]:
            delete(e)
    elif sh == "del-add":
        for _ in range(int(rng.integers(2, 5))):
            add()
        if live:
            delete(live[int(rng.integers(0, len(live)))])
        add()
        if rng.random() < 0.5 and live:
            delete(live[int(rng.integers(0, len(live)))])
            add()
    elif sh == "del-replace":
        # a hole below a live calibration whose name is then added again:
        # the replacement must take the place of the old one, not the hole
        for _ in range(int(rng.integers(2, 6))):
            add()
        if len(live) >= 2:
            k = int(rng.integers(0, len(live) - 1))
            above = live[k + 1:]
            delete(live[k])
            add(name=above[int(rng.integers(0, len(above)))].name)
            if rng.random() < 0.4:
                add()
    elif sh == "alias":
        e = add()
        if e is not None:
            for _ in range(int(rng.integers(1, 4))):
                add(scen=e.scen)
            if rng.random() < 0.5:
                add()
    else:
        for _ in range(int(rng.integers(3, 11))):
            x = rng.random()
            if len(live) >= 6 or (x < 0.3 and live):
                delete(live[int(rng.integers(0, len(live)))])
            elif x < 0.5 and live:
                add(name=live[int(rng.integers(0, len(live)))].name)
            elif x < 0.6 and live:
                add(scen=live[int(rng.integers(0, len(live)))].scen)
            else:
                add()
    cs.live = live
    cs.gprops = rand_props(rng)
    for e in live:
        e.props = rand_props(rng)
    cs.free_new = rng.random() < 0.4
    cs.victim = live[int(rng.integers(0, len(live)))] \
        if live and rng.random() < 0.7 else None
    cs.probe = {}
    for e in live:
        sc = cs.scens[e.scen]
        if sc.can_apply() and e.scen not in cs.probe:
            cs.probe[e.scen] = sc.rand_dut()
    return cs


# ----------------------------------------------------------------------
# phase 1 script: build, save, load, re-save, apply
# ----------------------------------------------------------------------
def phase1(cs):
    s = Script()
    L = dict(solve={}, add={}, delete=[], setp=[], apply={})
    s.op("vc=vnacal_create")
    emitted = set()
    uid = [0]
    for k, (kind, e) in enumerate(cs.steps):
        if kind == "delete":
            L["delete"].append(s.op("vnacal_delete_calibration $vc $%s" % e.var))
            continue
        j = e.scen
        sc = cs.scens[j]
        if j not in emitted:
            emitted.add(j)
            sc.emit_header(s, vc="vc", vn="n%d" % j, create=False)
            for i, st in enumerate(sc.stds):
                sc.emit_std(s, st, j * 100 + i, vc="vc", vn="n%d" % j, uid=uid)
            L["solve"][(j, 0)] = s.op("vnacal_new_solve $n%d" % j)
        else:
            # a vnacal_new_t gives its solution away: solve again
            L["solve"][(j, k)] = s.op("vnacal_new_solve $n%d" % j)
        L["add"][e.var] = s.op("%s=vnacal_add_calibration $vc %s $n%d" % (
            e.var, qs(e.name), j))
    if cs.free_new:
        for j in sorted(emitted):
            s.op("vnacal_new_free $n%d" % j)
    np_ = 0
    for ci, doc in [("-1", cs.gprops)] + [("$" + e.var, e.props)
                                            for e in cs.live]:
        if doc == "none":
            continue
        pv = "pr%d" % np_
        np_ += 1
        s.op("%s=proot" % pv)
        for ln in prop_lines(pv, doc):
            L["setp"].append(s.add(ln))
        L["setp"].append(s.op('vnacal_property_set_subtree $vc %s "." $%s' % (
            ci, pv)))
    L["set_fp"] = [(p, s.op("vnacal_set_fprecision $vc %d" % p))
                   for p in cs.fp_calls]
    L["set_dp"] = [(p, s.op("vnacal_set_dprecision $vc %d" % p))
                   for p in cs.dp_calls]
    L["dump0"] = s.op("dump_vnacal $vc")
    L["save_a"] = s.op('vnacal_save $vc "a.vnacal"')
    L["text_a"] = s.op('read_file "a.vnacal"')
    L["load"] = s.op('v2=vnacal_load "a.vnacal"')
    L["dump1"] = s.op("dump_vnacal $v2")
    L["v2_fp"] = s.op("vnacal_set_fprecision $v2 %d" % MAXP)
    L["v2_dp"] = s.op("vnacal_set_dprecision $v2 %d" % MAXP)
    L["save_b"] = s.op('vnacal_save $v2 "b.vnacal"')
    L["text_b"] = s.op('read_file "b.vnacal"')
    L["vc_fp"] = s.op("vnacal_set_fprecision $vc %d" % MAXP)
    L["vc_dp"] = s.op("vnacal_set_dprecision $vc %d" % MAXP)
    L["save_c"] = s.op('vnacal_save $vc "c.vnacal"')
    L["text_c"] = s.op('read_file "c.vnacal"')
    fpe = eff(cs.fp, DEFAULT_FP)
    made = False
    for n, e in enumerate(cs.live):
        sc = cs.scens[e.scen]
        if e.scen not in cs.probe:
            continue
        if not made:
            s.op("vd=vnadata_alloc")
            s.op("ve=vnadata_alloc")
            made = True
        duts = cs.probe[e.scen]
        p = sc.p
        Ms = [physics.apply_measurement(sc.enet[f], duts[f])
              for f in range(sc.F)]
        s.cmat("pm%d" % n, [[Ms[f][i, k] for f in range(sc.F)]
                            for i in range(p) for k in range(p)])
        s.rvec("fo%d" % n, sc.freqs)
        s.rvec("fl%d" % n, [round_sig(float(x), fpe) if fpe != MAXP
                            else float(x) for x in sc.freqs])
        a0 = s.op("vnacal_apply_m $vc $%s @fo%d %d @pm%d %d %d $vd" % (
            e.var, n, sc.F, n, p, p))
        d0 = s.op("dump_vnadata $vd")
        s.op("k%d=vnacal_find_calibration $v2 %s" % (n, qs(e.name)))
        a1 = s.op("vnacal_apply_m $v2 $k%d @fl%d %d @pm%d %d %d $ve" % (
            n, n, sc.F, n, p, p))
        d1 = s.op("dump_vnadata $ve")
        L["apply"][e.var] = (a0, d0, a1, d1, Ms)
    if cs.victim is not None:
        # second generation: a hole in the loaded object, saved and loaded
        s.op("kd=vnacal_find_calibration $v2 %s" % qs(cs.victim.name))
        L["del2"] = s.op("vnacal_delete_calibration $v2 $kd")
        L["save_d"] = s.op('vnacal_save $v2 "d.vnacal"')
        L["text_d"] = s.op('read_file "d.vnacal"')
        L["load_d"] = s.op('v3=vnacal_load "d.vnacal"')
        L["dump_d"] = s.op("dump_vnacal $v3")
        s.op('unlink "d.vnacal"')
    for f in ("a", "b", "c"):
        s.op('unlink "%s.vnacal"' % f)
    return s.text(), L


# ----------------------------------------------------------------------
# comparison helpers
# ----------------------------------------------------------------------
def same_bits(x, y):
    return x == y and np.signbit(x) == np.signbit(y)


def agrees(got, ref, p):
    """got equals ref to p significant figures (exactly at MAX / p >= 17)"""
    if p >= 17:
        return same_bits(got, ref) or (got == ref == 0.0)
    # half a unit of the p-th figure, plus the rounding of the decimal text
    # to the nearest double
    return abs(got - ref) <= 0.5 * 10.0 ** (1 - p) * abs(ref) * (1 + 1e-9) \
        + 0.5 * math.ulp(abs(ref))


def cagrees(got, ref, p):
    return agrees(got.real, ref.real, p) and agrees(got.imag, ref.imag, p)


def canon_prop(d):
    """dump_property structure with map keys sorted"""
    if isinstance(d, dict):
        if "m" in d:
            kv = d["m"]
            pairs = [(kv[i], canon_prop(kv[i + 1]))
                     for i in range(0, len(kv), 2)]
            return ("m", tuple(sorted(pairs, key=lambda x: x[0])))
        if "l" in d:
            return ("l", tuple(canon_prop(x) for x in d["l"]))
        return ("bad", str(d))
    return d


def doc_to_canon(doc):
    """generator tree -> canonical dump form (latin-1 view of UTF-8)"""
    def l1(s_):
        return s_.encode("utf-8").decode("latin-1")
    if doc == "none" or doc is None:
        return None
    if isinstance(doc, dict):
        return ("m", tuple(sorted(((l1(k), doc_to_canon(v))
                                   for k, v in doc.items()),
                                  key=lambda x: x[0])))
    if isinstance(doc, list):
        return ("l", tuple(doc_to_canon(v) for v in doc))
    return l1(doc)


def prec_class(p):
    if p is None:
        return "default"
    if p == MAXP:
        return "max"
    if p > MAXP:
        return "above-max"
    if p > 40:
        return "p41-999"
    return "p%02d-%02d" % ((p - 1) // 8 * 8 + 1, (p - 1) // 8 * 8 + 8)


def live_slots(dump):
    return [sl for sl in dump["slots"] if sl is not None]


def read_file_event(ev):
    if ev is None or not isinstance(ev.get("ret"), str):
        return None
    return ev["ret"].encode("latin-1")


def check_digits(tok, p, is_max):
    """None if the token shows what the manual promises, else a description"""
    if is_max:
        if not V.is_hex(tok):
            return "%r is not in hexadecimal floating point notation" % tok
        return None
    n = V.shown_digits(tok)
    if n is None:
        return None           # another spelling: only the value is judged
    if n != p:
        return "%r shows %d significant figures, expected %d" % (tok, n, p)
    return None


def compare_terms(calx, caly, p, label_x, label_y):
    """first disagreement between the error terms of two Cal objects (y is the
    reference) at p significant figures, or None"""
    if len(calx.terms) != len(caly.terms):
        return "%d vs %d frequencies" % (len(calx.terms), len(caly.terms))
    for f in range(len(caly.terms)):
        fx, fy = calx.flat(f), caly.flat(f)
        if [a for a, _ in fx] != [a for a, _ in fy]:
            return "different term sets at frequency %d" % f
        for (lab, zx), (_, zy) in zip(fx, fy):
            if not cagrees(zx, zy, p):
                return "frequency %d %s: %s %r vs %s %r" % (
                    f, lab, label_x, zx, label_y, zy)
    return None


# ----------------------------------------------------------------------
# phase 1 judgement
# ----------------------------------------------------------------------
def judge1(cs, text, L, res, part, rng):
    viol = part["violations"]
    cnt = part["counters"]

    def bump(k, n=1):
        cnt[k] = cnt.get(k, 0) + n

    def bad(what, desc):
        viol.append(dict(key="%s:%s" % (PROP, what), script=text,
                         desc="fprecision=%s dprecision=%s history=%s "
                              "live=%s: %s" % (
                                  cs.fp_calls or "default",
                                  cs.dp_calls or "default", cs.shape,
                                  [(e.name, cs.scens[e.scen].ctype,
                                    cs.scens[e.scen].r, cs.scens[e.scen].c,
                                    cs.scens[e.scen].F) for e in cs.live],
                                  desc)))

    def ev(key):
        return res.ev(L[key]) if not isinstance(key, int) else res.ev(key)

    # --- the history was accepted the way the generator assumed
    for j, ln in L["solve"].items():
        e = res.ev(ln)
        if e is None:
            return None
        if e.get("ret") != 0:
            bump("skipped_solve_failed")
            return None
    for var, ln in L["add"].items():
        e = res.ev(ln)
        if e is None or not isinstance(e.get("ret"), int) or e["ret"] < 0:
            bump("skipped_add_failed")
            return None
    for ln in L["delete"]:
        e = res.ev(ln)
        if e is None or e.get("ret") != 0:
            bump("skipped_delete_failed")
            return None
    for ln in L["setp"]:
        e = res.ev(ln)
        if e is None or e.get("ret") in (-1, None) or \
                (isinstance(e.get("out"), dict) and
                 e["out"].get("set_rc") == -1):
            bump("skipped_property_build_failed")
            part["inconclusive"].append(dict(key="property-build-failed"))
            return None
    # precisions in force: the last value a setter accepted.  Every value in
    # 1..VNACAL_MAX_PRECISION must be accepted; outside of it either answer
    # is fine, but an accepted value counts
    act = {}
    for which in ("set_fp", "set_dp"):
        cur = None
        for p_, ln in L[which]:
            e = res.ev(ln)
            if e is None:
                return None
            if e.get("ret") == 0:
                cur = p_
                if not 1 <= p_ <= MAXP:
                    bump("setter_accepted_outside_1..max")
            elif 1 <= p_ <= MAXP:
                bad("setter-refused:%s" % prec_class(p_),
                    "precision setter failed: %s" % e)
                return True
            else:
                bump("setter_rejected_outside_1..max")
        act[which] = cur
    fpa, dpa = act["set_fp"], act["set_dp"]
    fpe, dpe = eff(fpa, DEFAULT_FP), eff(dpa, DEFAULT_DP)
    zp = min(fpe, dpe)
    for k in ("vc_fp", "vc_dp"):
        e = ev(k)
        if e is None or "skipped" in e:
            return None
        if e.get("ret") != 0:
            bad("setter-refused:max", "precision setter failed: %s" % e)
            return True
    d0 = ev("dump0")
    if d0 is None or "out" not in d0:
        return None
    orig = live_slots(d0["out"])
    if sorted(sl["name"] for sl in orig) != sorted(
            qn.encode("utf-8").decode("latin-1")
            for qn in (e.name for e in cs.live)):
        bump("skipped_history_not_as_modelled")
        part["inconclusive"].append(dict(key="history-not-as-modelled"))
        # the table is not what the history should have produced (C16's
        # matter), but whatever the vnacal_t holds must still survive save
        # and load: names in order, types, dimensions, frequencies
        d1 = ev("dump1")
        ld = ev("load")
        if d1 is not None and "out" in d1 and ld is not None and \
                ld.get("ret") is not None:
            a = [(sl["name"], sl["type"], sl["rows"], sl["cols"], sl["F"])
                 for sl in orig]
            b = [(sl["name"], sl["type"], sl["rows"], sl["cols"], sl["F"])
                 for sl in live_slots(d1["out"])]
            bump("model_free_round_trips")
            if a != b:
                bad("table-differs-after-load",
                    "the vnacal_t held %s before vnacal_save and holds %s "
                    "after vnacal_load of that file" % (a, b))
                return True
        return None
    by_name = {e.name.encode("utf-8").decode("latin-1"): e for e in cs.live}
    holes = sum(1 for sl in d0["out"]["slots"] if sl is None)
    if holes:
        bump("objects_with_holes")
    # the original object must hold what was entered (otherwise nothing below
    # means anything)
    for sl in orig:
        sc = cs.scens[by_name[sl["name"]].scen]
        if (sl["type"], sl["rows"], sl["cols"], sl["F"]) != (
                V.TYPE_ENUM[sc.ctype], sc.r, sc.c, sc.F) or \
                sl["freq"] != [float(x) for x in sc.freqs] or \
                complex(*sl["z0"]) != sc.z0:
            bump("skipped_original_not_as_entered")
            part["inconclusive"].append(dict(key="original-not-as-entered"))
            return None
    want_g = doc_to_canon(cs.gprops)
    if canon_prop(d0["out"]["gprop"]) != want_g or any(
            canon_prop(sl["prop"]) != doc_to_canon(by_name[sl["name"]].props)
            for sl in orig):
        bump("skipped_property_tree_not_as_built")
        part["inconclusive"].append(dict(key="property-tree-not-as-built"))
        return None

    # --- save
    sa = ev("save_a")
    if sa is None:
        return None
    pcl = "f=%s,d=%s" % (prec_class(fpa), prec_class(dpa))
    if sa.get("ret") != 0:
        bad("save-failed:" + pcl, "vnacal_save failed: %s" % sa)
        return True
    ta = read_file_event(ev("text_a"))
    tb = read_file_event(ev("text_b"))
    tc = read_file_event(ev("text_c"))
    ld = ev("load")
    if ld is None or ta is None:
        return None
    if ld.get("ret") is None:
        bad("load-failed:" + pcl, "vnacal_load of the file just saved "
            "failed: %s\n%s" % (ld, ta[:1500].decode("latin-1")))
        return True
    for k in ("v2_fp", "v2_dp"):
        e = ev(k)
        if e is None or "skipped" in e:
            return None
        if e.get("ret") != 0:
            bad("setter-refused:max", "precision setter failed on the loaded "
                "object: %s" % e)
            return True
    for k in ("save_b", "save_c"):
        e = ev(k)
        if e is None or "skipped" in e:
            return None
        if e.get("ret") != 0:
            bad("save-failed:max", "vnacal_save at VNACAL_MAX_PRECISION "
                "failed (%s): %s" % (k, e))
            return True
    if tb is None or tc is None:
        return None
    files = {}
    for nm, t in (("a", ta), ("b", tb), ("c", tc)):
        try:
            files[nm] = V.read_bytes(t)
        except (V.FormatError, UnicodeDecodeError, ValueError) as x:
            bad("file-unreadable", "the independent reader cannot read the "
                "file written by vnacal_save (%s): %s\n%s" % (
                    nm, x, t[:1200].decode("latin-1")))
            return True
        if files[nm].version_line != "#VNACal 1.0":
            bad("version-line", "first line is %r" % files[nm].version_line)
    ag = V.readers_agree(ta.decode("utf-8"))
    bump("mini_reader_%s" % ("agrees" if ag else "unavailable" if ag is None
                             else "DISAGREES"))
    A, B, C = files["a"], files["b"], files["c"]

    # --- the loaded object through the public getters
    d1 = ev("dump1")
    if d1 is None or "out" not in d1:
        return None
    got = live_slots(d1["out"])
    if [sl["name"] for sl in got] != [sl["name"] for sl in orig]:
        bad("names-order", "calibration names after load %s, before save %s" %
            ([sl["name"] for sl in got], [sl["name"] for sl in orig]))
        return True
    if len(A.cals) != len(orig) or len(B.cals) != len(orig) or \
            len(C.cals) != len(orig):
        bad("file-calibration-count", "files hold %d / %d / %d calibrations, "
            "the object %d" % (len(A.cals), len(B.cals), len(C.cals), len(orig)))
        return True
    if canon_prop(d1["out"]["gprop"]) != canon_prop(d0["out"]["gprop"]):
        bad("properties:global", "global property tree after load\n  %s\n"
            "before save\n  %s" % (d1["out"]["gprop"], d0["out"]["gprop"]))
    for n, (so, sg) in enumerate(zip(orig, got)):
        sc = cs.scens[by_name[so["name"]].scen]
        ty = sc.ctype
        if sg["find"] != d1["out"]["slots"].index(sg):
            bad("find-after-load", "vnacal_find_calibration(%r) on the loaded "
                "object returns %s" % (sg["name"], sg["find"]))
        if (sg["type"], sg["rows"], sg["cols"], sg["F"]) != (
                so["type"], so["rows"], so["cols"], so["F"]):
            bad("type-dims:" + ty, "calibration %r: type/rows/columns/"
                "frequencies after load %s, before save %s" % (
                    so["name"], (sg["type"], sg["rows"], sg["cols"], sg["F"]),
                    (so["type"], so["rows"], so["cols"], so["F"])))
            return True
        if canon_prop(sg["prop"]) != canon_prop(so["prop"]):
            bad("properties:calibration", "property tree of calibration %r "
                "after load\n  %s\nbefore save\n  %s" % (
                    so["name"], sg["prop"], so["prop"]))
        # frequencies
        fbad = False
        for f in range(sc.F):
            if not agrees(sg["freq"][f], so["freq"][f], fpe):
                bad("frequency-value:" + prec_class(fpa),
                    "calibration %r frequency %d: %r after load, %r before "
                    "save (fprecision %s)" % (so["name"], f, sg["freq"][f],
                                              so["freq"][f], fpe))
                fbad = True
                break
        if (sg["fmin"], sg["fmax"]) != (sg["freq"][0], sg["freq"][-1]):
            bad("fmin-fmax-after-load", "calibration %r: fmin/fmax %r/%r, "
                "vector %r" % (so["name"], sg["fmin"], sg["fmax"], sg["freq"]))
        zg, zo = complex(*sg["z0"]), complex(*so["z0"])
        if not cagrees(zg, zo, zp):
            bad("z0-value", "calibration %r: z0 %r after load, %r before "
                "save" % (so["name"], zg, zo))
        ca, cb, cc = A.cals[n], B.cals[n], C.cals[n]
        for nm, cf_ in (("saved file", ca), ("loaded object re-saved", cb),
                        ("original at maximum precision", cc)):
            if (cf_.name.encode("utf-8").decode("latin-1"), cf_.type,
                    cf_.rows, cf_.cols, cf_.nfreq) != (
                    so["name"], ty, sc.r, sc.c, sc.F):
                bad("file-header:" + ty, "%s: calibration %d is %r, the "
                    "object has %r" % (nm, n, (cf_.name, cf_.type, cf_.rows,
                                               cf_.cols, cf_.nfreq),
                                       (so["name"], ty, sc.r, sc.c, sc.F)))
                return True
        # file text: digits shown and notation
        msgs = []
        for f in range(sc.F):
            m = check_digits(ca.freq_text[f], fpe, fpe == MAXP)
            if m:
                msgs.append(("f", m))
            for lab, tok in ca.flat_text(f):
                for part_ in V.split_complex(tok):
                    m = check_digits(part_, dpe, dpe == MAXP)
                    if m:
                        msgs.append(("d", "%s %s" % (lab, m)))
            for cmax in (cb, cc):
                if not V.is_hex(cmax.freq_text[f]) or any(
                        not V.is_hex(x) for _, tok in cmax.flat_text(f)
                        for x in V.split_complex(tok)):
                    msgs.append(("max", "a file saved at VNACAL_MAX_PRECISION"
                                 " holds numbers that are not hexadecimal"))
        if fpe == MAXP and dpe == MAXP and ca.z0_text is not None and any(
                not V.is_hex(x) for x in V.split_complex(ca.z0_text)):
            msgs.append(("max", "z0 %r is not hexadecimal" % ca.z0_text))
        for kind, m in msgs[:1]:
            which = "default" if (kind == "f" and fpa is None) or \
                (kind == "d" and dpa is None) else "set"
            bad("digits-shown:%s:%s" % (kind, which),
                "calibration %r: %s" % (so["name"], m))
        # file values: frequencies and z0 against the getters (exact on the
        # maximum precision files)
        for f in range(sc.F):
            if not agrees(ca.freqs[f], so["freq"][f], fpe):
                bad("file-frequency:" + prec_class(fpa),
                    "calibration %r: file says f=%s, the object %r" % (
                        so["name"], ca.freq_text[f], so["freq"][f]))
                fbad = True
                break
            if not same_bits(cc.freqs[f], so["freq"][f]) or \
                    not same_bits(cb.freqs[f], sg["freq"][f]):
                bad("max-precision-lossy:frequency", "calibration %r "
                    "frequency %d: saved at maximum precision %s / %s, "
                    "objects hold %r / %r" % (
                        so["name"], f, cc.freq_text[f], cb.freq_text[f],
                        so["freq"][f], sg["freq"][f]))
                break
        if cc.z0 is None or cb.z0 is None or ca.z0 is None:
            bad("file-z0-missing", "calibration %r has no z0 in the file" %
                so["name"])
        else:
            if not (same_bits(cc.z0.real, zo.real) and
                    same_bits(cc.z0.imag, zo.imag) and
                    same_bits(cb.z0.real, zg.real) and
                    same_bits(cb.z0.imag, zg.imag)):
                bad("max-precision-lossy:z0", "calibration %r: z0 saved at "
                    "maximum precision %s / %s, objects hold %r / %r" % (
                        so["name"], cc.z0_text, cb.z0_text, zo, zg))
            if not cagrees(ca.z0, zo, zp):
                bad("file-z0", "calibration %r: file says z0 %s, object %r" %
                    (so["name"], ca.z0_text, zo))
        # error terms: what was written (A against the exact C) and what was
        # read back (B against A)
        m = compare_terms(ca, cc, dpe, "saved", "exact")
        tbad = False
        if m:
            bad("terms-saved:%s:%s" % (ty, prec_class(dpa)),
                "calibration %r: the file does not hold the error terms to "
                "%s significant figures: %s" % (so["name"], dpe, m))
            tbad = True
        m = compare_terms(cb, ca, dpe, "loaded", "file")
        if m:
            bad("terms-loaded:%s:%s" % (ty, prec_class(dpa)),
                "calibration %r: the loaded object does not hold what the "
                "file says: %s" % (so["name"], m))
            tbad = True
        # meaning of the named matrices: the saved terms must reproduce the
        # measurement of an arbitrary device through the physical model
        worst = 0.0
        for f in range(sc.F):
            Sm = (rng.standard_normal((sc.p, sc.p)) +
                  1j * rng.standard_normal((sc.p, sc.p))) * 0.4
            try:
                Mf = V.predict_m(cc, f, Sm)
            except np.linalg.LinAlgError:
                continue
            Mp = sc.enet[f].measure(Sm)
            worst = max(worst, float(np.max(np.abs(Mf - Mp))))
        part["maxima"]["max_meaning_residual"] = max(
            part["maxima"].get("max_meaning_residual", 0.0), worst)
        if not (worst <= MEANING_TOL * (1 + sc.kappa)):
            bad("terms-meaning:" + ty, "calibration %r (%s %dx%d): the "
                "matrices in the file, read by name as documented in "
                "vnacal_layout.h, predict a measurement that differs from the "
                "physical model by %.3g" % (so["name"], ty, sc.r, sc.c, worst))
            tbad = True
        bump("calibrations_compared")
        part["distinct"].add((ty, sc.r, sc.c, fpa, dpa, len(orig),
                              cs.shape))
        k3 = "cell:%s:%dx%d" % (ty, sc.r, sc.c)
        cnt[k3] = cnt.get(k3, 0) + 1
        # apply through both
        e = by_name[so["name"]]
        if e.var in L["apply"] and fpa != cs.fp:
            bump("apply_not_compared_precision_not_as_planned")
        elif e.var in L["apply"] and not fbad and not tbad:
            a0, dd0, a1, dd1, Ms = L["apply"][e.var]
            ea0, ea1 = res.ev(a0), res.ev(a1)
            o0, o1 = res.ev(dd0), res.ev(dd1)
            if ea0 is None or ea1 is None or o0 is None or o1 is None:
                return None
            if ea0.get("ret") != 0:
                bump("apply_original_failed")
            elif ea1.get("ret") != 0:
                bad("apply-failed-after-load:" + ty, "vnacal_apply_m works "
                    "on the original (%dx%d) and fails on the loaded "
                    "calibration: %s" % (sc.r, sc.c, ea1))
            else:
                exact = fpe >= 17 and dpe >= 17
                for f in range(sc.F):
                    S0 = np.array([complex(*z) for z in o0["out"]["data"][f]])
                    S1 = np.array([complex(*z) for z in o1["out"]["data"][f]])
                    if not (np.all(np.isfinite(S0)) and np.all(np.isfinite(S1))):
                        bump("apply_nonfinite")
                        continue
                    diff = float(np.max(np.abs(S0 - S1)))
                    if exact:
                        if diff != 0.0:
                            bad("apply-differs:exact:" + ty, "calibration %r "
                                "saved without loss: vnacal_apply_m through "
                                "the loaded calibration differs by %.3g" % (
                                    so["name"], diff))
                            break
                        bump("apply_compared_exact")
                        continue
                    Sc = V.solve_s(cc, f, Ms[f], S0)
                    Sb = V.solve_s(cb, f, Ms[f], S0)
                    if Sc is None or Sb is None or not np.all(
                            np.isfinite(Sc)) or not np.all(np.isfinite(Sb)):
                        bump("apply_model_unavailable")
                        continue
                    D = float(np.max(np.abs(Sc - Sb)))
                    scale = 1.0 + float(np.max(np.abs(S0)))
                    tol = 4.0 * D + APPLY_FLOOR * scale * (1 + sc.kappa)
                    part["maxima"]["max_apply_diff_over_tol"] = max(
                        part["maxima"].get("max_apply_diff_over_tol", 0.0),
                        diff / tol)
                    if diff > tol:
                        bad("apply-differs:%s" % ty, "calibration %r (%dx%d, "
                            "dprecision %s): S through the loaded calibration "
                            "differs from S through the original by %.3g; the "
                            "difference of the saved terms explains %.3g" % (
                                so["name"], sc.r, sc.c, dpe, diff, D))
                        break
                    bump("apply_compared")
    if cs.victim is not None:
        vname = cs.victim.name.encode("utf-8").decode("latin-1")
        e1, e2, e3, e4 = ev("del2"), ev("save_d"), ev("load_d"), ev("dump_d")
        td = read_file_event(ev("text_d"))
        if e1 is None or e2 is None or e3 is None:
            return None
        keep = [i for i, sl in enumerate(got) if sl["name"] != vname]
        if e1.get("ret") != 0:
            bump("second_generation_delete_failed")
        elif e2.get("ret") != 0 or e3.get("ret") is None:
            bad("second-generation:save-load-failed", "after deleting %r "
                "from the loaded object: save %s, load %s" % (vname, e2, e3))
        elif e4 is None or td is None or "out" not in e4:
            return None
        else:
            try:
                Dm = V.read_bytes(td)
            except (V.FormatError, UnicodeDecodeError, ValueError) as x:
                bad("file-unreadable", "second generation: %s" % x)
                Dm = None
            s3 = live_slots(e4["out"])
            if Dm is not None:
                if [sl["name"] for sl in s3] != [got[i]["name"] for i in keep] \
                        or len(Dm.cals) != len(keep):
                    bad("second-generation:names-order", "loaded object held "
                        "%s; %r deleted, saved and loaded gives %s" % (
                            [sl["name"] for sl in got], vname,
                            [sl["name"] for sl in s3]))
                else:
                    if canon_prop(e4["out"]["gprop"]) != \
                            canon_prop(d1["out"]["gprop"]):
                        bad("second-generation:properties", "global "
                            "properties changed")
                    for k, i in enumerate(keep):
                        x, y = slot_core(s3[k]), slot_core(got[i])
                        m = None
                        if x != y:
                            m = "getters differ in %s" % [
                                f for f in x if x[f] != y[f]]
                        elif Dm.cals[k].freq_text != B.cals[i].freq_text or \
                                Dm.cals[k].z0_text != B.cals[i].z0_text:
                            m = "frequencies / z0 in the file differ"
                        else:
                            m = compare_terms(Dm.cals[k], B.cals[i], MAXP,
                                              "second", "first")
                        if m:
                            bad("second-generation:differs", "calibration %r "
                                "changed when another calibration was deleted "
                                "from the loaded object and the object was "
                                "saved and loaded again: %s" % (
                                    got[i]["name"], m))
                            break
                    bump("second_generation_compared")
    if not orig:
        part["distinct"].add(("-", 0, 0, fpa, dpa, 0, cs.shape))
    return dict(A=A, B=B, ta=ta, fpa=fpa, dpa=dpa)


# ----------------------------------------------------------------------
# phase 2: the saved text and its re-spellings
# ----------------------------------------------------------------------
def phase2(ta, A, flow):
    s = Script()
    L = {}
    variants = [("a", ta)]
    variants.append(("l3", V.write_text(A, "VNACAL 3.0", flow=flow)
                     .encode("utf-8")))
    variants.append(("w1", V.write_text(A, "VNACal 1.0", flow=not flow)
                     .encode("utf-8")))
    e12 = [i for i, c in enumerate(A.cals) if c.type == "E12"]
    if e12:
        variants.append(("l2", V.write_text(A, "VNACAL 2.0").encode("utf-8")))
    for nm, data in variants:
        s.op("write_file %s %s" % (qs(nm + ".vnacal"), qsb(data)))
        L["load_" + nm] = s.op("%s=vnacal_load %s" % (nm, qs(nm + ".vnacal")))
        L["dump_" + nm] = s.op("dump_vnacal $%s" % nm)
        s.op("vnacal_set_fprecision $%s %d" % (nm, MAXP))
        s.op("vnacal_set_dprecision $%s %d" % (nm, MAXP))
        L["save_" + nm] = s.op("vnacal_save $%s %s" % (nm, qs(nm + "x.vnacal")))
        L["text_" + nm] = s.op("read_file %s" % qs(nm + "x.vnacal"))
        s.op("unlink %s" % qs(nm + ".vnacal"))
        s.op("unlink %s" % qs(nm + "x.vnacal"))
    return s.text(), L, [nm for nm, _ in variants], e12


def slot_core(sl, with_props=True):
    d = {k: sl[k] for k in ("name", "type", "rows", "cols", "F", "freq", "z0")}
    if with_props:
        d["prop"] = canon_prop(sl["prop"])
    return d


def judge2(text, L, names, e12, res, part):
    viol = part["violations"]
    cnt = part["counters"]

    def bad(what, desc):
        viol.append(dict(key="%s:%s" % (PROP, what), desc=desc, script=text))
    loaded = {}
    for nm in names:
        ld = res.ev(L["load_" + nm])
        d = res.ev(L["dump_" + nm])
        sv = res.ev(L["save_" + nm])
        tx = read_file_event(res.ev(L["text_" + nm]))
        if ld is None:
            return False
        if ld.get("ret") is None:
            what = {"a": "reload-failed", "l3": "legacy3:load-failed",
                    "l2": "legacy2:load-failed",
                    "w1": "respelt:load-failed"}[nm]
            bad(what, "vnacal_load failed on the %s spelling: %s" % (nm, ld))
            if nm == "a":
                return True
            continue
        if d is None or "out" not in d or sv is None or tx is None:
            return False
        try:
            loaded[nm] = (d["out"], V.read_bytes(tx))
        except (V.FormatError, UnicodeDecodeError, ValueError) as x:
            bad("file-unreadable", "re-saved %s: %s" % (nm, x))
    if "a" not in loaded:
        return True
    da, fa = loaded["a"]
    sa = live_slots(da)
    for nm in names[1:]:
        if nm not in loaded:
            continue
        key = {"l3": "legacy3", "w1": "respelt", "l2": "legacy2"}[nm]
        dn, fn = loaded[nm]
        sn = live_slots(dn)
        idx = e12 if nm == "l2" else list(range(len(sa)))
        cnt["spellings_compared:" + key] = cnt.get(
            "spellings_compared:" + key, 0) + 1
        if len(sn) != len(idx):
            bad(key + ":calibration-count", "%d calibrations loaded, %d "
                "written" % (len(sn), len(idx)))
            continue
        if nm != "l2" and canon_prop(dn["gprop"]) != canon_prop(da["gprop"]):
            bad(key + ":properties", "global properties differ:\n  %s\n  %s" %
                (dn["gprop"], da["gprop"]))
        for k, i in enumerate(idx):
            x, y = slot_core(sn[k], nm != "l2"), slot_core(sa[i], nm != "l2")
            if x != y:
                diff = [f for f in x if x[f] != y[f]]
                bad("%s:%s" % (key, diff[0]), "calibration %r loaded from the "
                    "%s spelling differs in %s: %s vs %s" % (
                        y["name"], nm, diff, [x[f] for f in diff][:2],
                        [y[f] for f in diff][:2]))
                break
            m = compare_terms(fn.cals[k], fa.cals[i], MAXP, nm, "current")
            if fn.cals[k].type != fa.cals[i].type:
                m = "type %s vs %s" % (fn.cals[k].type, fa.cals[i].type)
            if m:
                bad(key + ":terms", "calibration %r: error terms loaded from "
                    "the %s spelling differ from those loaded from the "
                    "current spelling of the same numbers: %s" % (
                        y["name"], nm, m))
                break
    return True


COMPAT_REL = os.path.join("src", "tests", "compat-V2.vnacal")


def compat_case():
    repo = os.environ.get("VERIF_REPO", "/repo")
    path = os.path.join(repo, COMPAT_REL)
    if not os.path.exists(path):
        return None
    data = open(path, "rb").read()
    s = Script()
    L = {}
    s.op("write_file \"compat.vnacal\" %s" % qsb(data))
    L["load"] = s.op('vc=vnacal_load "compat.vnacal"')
    L["dump"] = s.op("dump_vnacal $vc")
    s.op("vnacal_set_fprecision $vc %d" % MAXP)
    s.op("vnacal_set_dprecision $vc %d" % MAXP)
    L["save"] = s.op('vnacal_save $vc "compatx.vnacal"')
    L["text"] = s.op('read_file "compatx.vnacal"')
    L["load2"] = s.op('v2=vnacal_load "compatx.vnacal"')
    L["dump2"] = s.op("dump_vnacal $v2")
    s.op('unlink "compat.vnacal"')
    s.op('unlink "compatx.vnacal"')
    return s.text(), L, data


def judge_compat(text, L, data, res, part):
    def bad(what, desc):
        part["violations"].append(dict(key="%s:compat-v2:%s" % (PROP, what),
                                       desc=desc, script=text))
    old = V.read_bytes(data)
    ld = res.ev(L["load"])
    if ld is None:
        return False
    if ld.get("ret") is None:
        bad("load-failed", "the checked-in %s does not load: %s" % (
            COMPAT_REL, ld))
        return True
    d = res.ev(L["dump"])
    tx = read_file_event(res.ev(L["text"]))
    d2 = res.ev(L["dump2"])
    if d is None or tx is None or d2 is None or "out" not in d:
        return False
    new = V.read_bytes(tx)
    slots = live_slots(d["out"])
    if len(slots) != len(old.cals) or len(new.cals) != len(old.cals):
        bad("calibration-count", "%d in the file, %d loaded, %d re-saved" % (
            len(old.cals), len(slots), len(new.cals)))
        return True
    for sl, co, cn in zip(slots, old.cals, new.cals):
        if (sl["name"], sl["type"], sl["rows"], sl["cols"], sl["F"]) != (
                co.name, V.TYPE_ENUM["E12"], co.rows, co.cols, co.nfreq) or \
                sl["freq"] != co.freqs or complex(*sl["z0"]) != co.z0:
            bad("header", "loaded %s, file says %s" % (
                {k: sl[k] for k in ("name", "type", "rows", "cols", "F")},
                (co.name, "E12", co.rows, co.cols, co.nfreq, co.z0)))
            return True
        m = compare_terms(cn, co, MAXP, "loaded", "file")
        if cn.type != "E12":
            m = "re-saved as type %s" % cn.type
        if m:
            bad("terms", "error terms loaded from the version 2 file differ "
                "from e[row][column] = [el, er, em]: %s" % m)
            return True
    if "out" in d2 and [slot_core(x) for x in live_slots(d2["out"])] != \
            [slot_core(x) for x in slots]:
        bad("resave", "re-saving the loaded version 2 file and loading it "
            "again changes the calibration table")
    part["counters"]["compat_v2_compared"] = part["counters"].get(
        "compat_v2_compared", 0) + 1
    return True


# ----------------------------------------------------------------------
def work(chunk_id, payload):
    seed, tier, ncases, binary, workroot = payload
    rng = np.random.default_rng([seed, chunk_id, 707])
    part = dict(evaluations=0, counters={}, maxima={}, distinct=set(),
                samples=[], violations=[], inconclusive=[], harness_errors=[])
    cnt = part["counters"]
    cases, meta = [], {}
    pool = {}
    for k in range(ncases):
        n = chunk_id * ncases + k
        forced_t = physics.TYPES[n % 8] if k % 2 == 0 else None
        forced_s = SHAPES[(n // 2) % len(SHAPES)] if k % 3 == 0 else None
        if forced_s == "empty":
            forced_t = None
        cs = gen_case(rng, forced_t, forced_s, pool)
        cnt["scenarios_regenerated"] = cnt.get("scenarios_regenerated", 0) + \
            cs.skipped
        text, L = phase1(cs)
        cid = "p%d_%d" % (chunk_id, k)
        cases.append((cid, text))
        meta[cid] = (cs, L)
    cc = compat_case() if chunk_id == 0 else None
    if cc is not None:
        cases.append(("compat%d" % chunk_id, cc[0]))
    wd = os.path.join(workroot, "w%d" % chunk_id)
    results = R.run_cases(binary, cases, wd, timeout=3000, watchdog=30)
    second, meta2 = [], {}
    for cid, text in cases:
        res = results[cid]
        v, inc = R.standard_violations(res, text, PROP)
        part["violations"] += v
        part["inconclusive"] += inc
        if res.status in ("driver_error", "notrun"):
            part["harness_errors"].append("%s %s %s" % (cid, res.status,
                                                        res.detail))
            continue
        if cid.startswith("compat"):
            if judge_compat(cc[0], cc[1], cc[2], res, part):
                part["evaluations"] += 1
            continue
        cs, L = meta[cid]
        out = judge1(cs, text, L, res, part, rng)
        if out is None:
            continue
        part["evaluations"] += 1
        k = "history:" + cs.shape
        cnt[k] = cnt.get(k, 0) + 1
        if isinstance(out, dict):
            k = "files:f=%s,d=%s" % (prec_class(out["fpa"]),
                                     prec_class(out["dpa"]))
            cnt[k] = cnt.get(k, 0) + 1
        if len(part["samples"]) < 1 and cs.live:
            part["samples"].append(dict(
                fprecision_calls=cs.fp_calls, dprecision_calls=cs.dp_calls,
                history=cs.shape,
                steps=[(kind, e.name, cs.scens[e.scen].ctype,
                        "%dx%d" % (cs.scens[e.scen].r, cs.scens[e.scen].c),
                        cs.scens[e.scen].F) for kind, e in cs.steps],
                z0=[str(cs.scens[e.scen].z0) for e in cs.live],
                global_properties=cs.gprops,
                saved_file_head=out["ta"][:600].decode("latin-1")
                if isinstance(out, dict) else None))
        if isinstance(out, dict):
            t2, L2, names, e12 = phase2(out["ta"], out["A"],
                                        flow=bool(rng.integers(0, 2)))
            cid2 = "q" + cid
            second.append((cid2, t2))
            meta2[cid2] = (L2, names, e12)
    if second:
        results2 = R.run_cases(binary, second, wd, timeout=3000, watchdog=30)
        for cid2, t2 in second:
            res = results2[cid2]
            v, inc = R.standard_violations(res, t2, PROP)
            part["violations"] += v
            part["inconclusive"] += inc
            if res.status in ("driver_error", "notrun"):
                part["harness_errors"].append("%s %s %s" % (
                    cid2, res.status, res.detail))
                continue
            L2, names, e12 = meta2[cid2]
            if judge2(t2, L2, names, e12, res, part):
                cnt["second_phase_files"] = cnt.get("second_phase_files", 0) \
                    + len(names)
    return part


def main():
    chk = R.Check(PROP)
    binary = chk.build("asan")
    total = 800 if chk.tier == "quick" else 10048
    total = int(total * chk.args.scale)
    nchunks = 16 if chk.tier == "quick" else 64
    per = max(1, total // nchunks)
    payloads = [(chk.seed, chk.tier, per, binary, chk.workroot)
                for _ in range(nchunks)]
    for part in R.pmap(work, payloads):
        chk.merge(part)
    cells = {k: v for k, v in chk.counters.items() if k.startswith("cell:")}
    for k in cells:
        del chk.counters[k]
    chk.counters["pyyaml_reader"] = 1 if V.HAVE_PYYAML else 0
    chk.finish(
        rule="vnacal_t with 0..6 calibrations from calgen solves (8 types, "
             "1..3 ports incl. rectangular, 1..5 frequencies, complex z0), "
             "add / replace-by-name / delete / same-solution-twice histories, "
             "hostile names and global / per-calibration property trees, "
             "fprecision and dprecision from {default, 1..40, 1000}; saved, "
             "loaded, both re-saved at maximum precision, probe measurement "
             "applied through both; saved text re-spelt as #VNACAL 3.0, "
             "#VNACAL 2.0 (E12) and in the other YAML style; the checked-in "
             "compat-V2.vnacal; distinct = distinct (type, rows, columns, "
             "fprecision, dprecision, live calibrations, history shape) of "
             "the calibrations compared",
        min_events=20,
        assumptions=[
            "CPython float(), float.fromhex and '%.*e' are correctly rounded",
            "PyYAML's composer (libyaml) tokenises the files when importable; "
            "otherwise the small reader in vcalfile.py",
            "the E-term model of physics.py gives the meaning of the saved "
            "matrices through the equations of vnacal_layout.h",
            "z0 is asked to survive only to min(fprecision, dprecision) "
            "figures: the manual does not say which precision applies to it",
            "cases whose solve fails or whose original object is not what was "
            "entered are left to C01 / C16 and counted as skipped"],
        extra=dict(compared_cells=cells))


if __name__ == "__main__":
    main()
