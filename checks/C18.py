#!/usr/bin/env python3-vt
"""C18: measurement-error modelling weights without bias and judges
consistency sanely.

Monitors (all on the real library under ASan/UBSan):
 exact     over-determined, fully known standards, exact data, m_error on
           (noise floor, with/without tracking part, 1 / 2 / N-point noise
           grids): the solve must succeed and correct like the unweighted run.
 disable   set_m_error(...) followed by set_m_error(NULL, NULL) restores the
           unweighted result bit for bit.
 rates     Gaussian noise of exactly the declared size: rejection rate at
           significance 0.05 per (type, regime) must lie in [1 %, 20 %]
           (widened by a 99.999 % binomial interval).
 outlier   one standard displaced by 100 sigma: rejected in >= 90 %.
 redeclare the last vnacal_new_set_m_error call is the one in force: earlier,
           different declarations on the same vnacal_new_t change nothing.
 twin      the same straight-line noise law given on the calibration grid and
           on its own 2..4-knot grid (interpolated by the library): the two
           weighted solves of the same noisy data must agree.
"""
import math
import os
import sys

import numpy as np

sys.path.insert(0, os.path.join(os.path.dirname(os.path.abspath(__file__)),
                                "..", "pylib"))
import calgen  # noqa: E402
import physics  # noqa: E402
import runner as R  # noqa: E402
from runner import Script, cx, hx, qs  # noqa: E402

PROP = "C18"
ALPHA = 0.05
REGIMES = ["floor", "mixed", "tracking", "sweep"]


def overdetermined(sc):
    return all(a["equations"] >= a["unknowns"] for a in sc.classify(0)[0])


def scenario(rng, ctype, r, c, F, leak_samples=0):
    for _ in range(10):
        sc = calgen.Scenario(ctype, r, c, F, rng, form="m")
        sc.sufficient_recipe(extras=int(rng.integers(2, 5)))
        if leak_samples and ctype in physics.LEAKAGE_OUTSIDE and sc.p >= 2:
            for _k in range(leak_samples):
                s = sc.add_reflect(list(range(1, sc.p + 1)))
                s.must_full = True
        sc.choose_entries()
        ok, kappa = sc.well_determined(300.0)
        # the property speaks of over-determined data: every system needs at
        # least one equation more than it has free terms (with none to spare
        # the library deliberately reports a p-value of zero)
        if ok and overdetermined(sc):
            return sc, kappa
    return None, None


def unequal_scenario(rng, ctype, F, lo_share=0.0):
    """UE14 / E12, two columns: the column system of port 1 is exactly
    determined, that of port 2 has spare equations (extra reflects measured on
    port 2 only).  The consistency test then rests on the later system
    alone."""
    for _ in range(12):
        sc = calgen.Scenario(ctype, 2, 2, F, rng, form="m")
        # a strong source match on port 2: the residual of a reflect equation
        # and the error of its measurement then differ by a factor far from 1
        for en in sc.enet:
            el, er, em, et = en.cols[1]
            em[1, 1] = rng.uniform(0.55, 0.8) * np.exp(
                2j * np.pi * rng.random())
        for q in (1, 2):
            for _k in range(3):
                sc.add_reflect([q], [sc.rparam(1.0, False)])
        if rng.random() < 0.5:
            sc.add_through(1, 2)
        else:
            sc.add_line(1, 2)
        # the extra measurements repeat one reflect whose phase puts
        # |1 - s em22| at its largest (or smallest) value
        sign = 1.0 if rng.random() < lo_share else -1.0
        vals = np.array([sign * np.exp(-1j * np.angle(en.cols[1][2][1, 1]))
                         for en in sc.enet])
        for _k in range(int(rng.integers(4, 9))):
            sc.add_reflect([2], [calgen.Param("vector" if F > 1 else "scalar",
                                              vals.copy())])
        sc.choose_entries()
        for st in sc.stds:
            st.full_rows = st.full_cols = True
        ok, kappa = sc.well_determined(300.0)
        if not ok:
            continue
        spare = [a["equations"] - (a["unknowns"] - 1)
                 for a in sc.classify(0)[0]]
        if len(spare) == 2 and spare[0] == 0 and spare[1] >= 2:
            return sc, kappa, ("unequal" if sign < 0 else "unequal-lo")
    return None, None, "unequal"


def emit_cal(s, sc, vn, name, m_error=None, pvalue=None, uid=None, tag="",
             iteration_limit=None):
    """one vnacal_new_t on the shared $vc; returns lines"""
    L = {}
    s.op("%s=vnacal_new_alloc $vc %s %d %d %d" % (vn, sc.ctype, sc.r, sc.c, sc.F))
    s.op("vnacal_new_set_frequency_vector $%s @freq" % vn)
    if m_error is not None:
        for step in m_error:
            s.op("vnacal_new_set_m_error $%s %s" % (vn, step))
    if pvalue is not None:
        s.op("vnacal_new_set_pvalue_limit $%s %s" % (vn, hx(pvalue)))
    if iteration_limit is not None:
        s.op("vnacal_new_set_iteration_limit $%s %d" % (vn, iteration_limit))
    L["add"] = [sc.emit_std(s, st, int(tag) * 1000 + i, vn=vn, uid=uid)
                for i, st in enumerate(sc.stds)]
    L["solve"] = s.op("vnacal_new_solve $%s" % vn)
    L["addcal"] = s.op("ci_%s=vnacal_add_calibration $vc %s $%s" % (
        name, qs(name), vn))
    return L


def noise_grid(s, sc, rng, nf, tr, kind, pfx):
    """emit buffers for a set_m_error call; returns the argument string"""
    F = sc.F
    lo, hi = sc.freqs[0], sc.freqs[-1]
    if kind == "single":
        s.rvec(pfx + "n", [nf])
        if tr is not None:
            s.rvec(pfx + "t", [tr])
        return "NULL 1 @%sn %s" % (pfx, "@%st" % pfx if tr is not None else "NULL")
    if kind == "two":
        s.rvec(pfx + "f", [lo * 0.9, hi * 1.1 + 1])
        s.rvec(pfx + "n", [nf, nf])
        if tr is not None:
            s.rvec(pfx + "t", [tr, tr])
        return "@%sf 2 @%sn %s" % (pfx, pfx,
                                   "@%st" % pfx if tr is not None else "NULL")
    s.rvec(pfx + "n", [nf] * F)
    if tr is not None:
        s.rvec(pfx + "t", [tr] * F)
    fa = "NULL" if rng.random() < 0.5 else "@freq"
    return "%s %d @%sn %s" % (fa, F, pfx,
                              "@%st" % pfx if tr is not None else "NULL")


def get_S(res, line, p):
    d = res.ev(line)
    if d is None or "out" not in d:
        return None
    return [np.array([complex(a, b) for a, b in d["out"]["data"][f]]).reshape(p, p)
            for f in range(d["out"]["F"])]


# ----------------------------------------------------------------------
def work_exact(chunk_id, payload):
    seed, n, binary, workroot = payload
    rng = np.random.default_rng([seed, chunk_id, 1818])
    part = dict(evaluations=0, counters={}, maxima={}, distinct=set(),
                samples=[], violations=[], inconclusive=[], harness_errors=[])
    cnt = part["counters"]
    cases, meta = [], {}
    for k in range(n):
        ctype = physics.TYPES[(chunk_id + k) % 8]
        p = int(rng.choice([1, 1, 2, 2, 3]))
        r = c = p
        if p == 2 and rng.random() < 0.2:
            if ctype in physics.T_TYPES:
                r = 1
            else:
                c = 1
        F = int(rng.choice([1, 2, 3]))
        sc, kappa = scenario(rng, ctype, r, c, F)
        if sc is None:
            continue
        full16 = ctype in ("T16", "U16")
        if full16:
            # measurement-error modelling with 16-term types needs complete S
            # matrices: keep only the standards that connect every port
            sc.stds = [st for st in sc.stds if st.n == sc.p]
            if not (sc.well_determined(300.0)[0] and overdetermined(sc)):
                cnt["skipped_16term_partial"] = cnt.get(
                    "skipped_16term_partial", 0) + 1
                continue
        if rng.random() < 0.4:
            for st in sc.stds:
                st.form = "ab"
            sc.form = "ab"
        nf = 10 ** rng.uniform(-6, -2)
        trk = rng.integers(0, 4)
        tr = None if trk == 0 else (0.0 if trk == 1 else
                                    10 ** rng.uniform(-5, -1))
        if sc.p == 1 and rng.random() < 0.5:
            # wide dynamic range: the first standard is a load that cancels
            # the raw directivity down to 1e-9..1e-5, the noise floor is low
            # and the signal-proportional part large, so the weights of the
            # equations differ by up to 1e8 (exact data: the weighting still
            # must not change the answer)
            vals = []
            for f in range(sc.F):
                en = sc.enet[f]
                if ctype in physics.COLUMN_TYPES:
                    el_, er_, em_, et_ = en.cols[0]
                    el_, er_, em_ = el_[0], er_[0, 0], em_[0, 0]
                else:
                    el_, er_, em_, et_ = (en.El[0, 0], en.Er[0, 0],
                                          en.Em[0, 0], en.Et[0, 0])
                m_ = 10 ** rng.uniform(-9, -5) * np.exp(
                    2j * np.pi * rng.random())
                vals.append((m_ - el_) / (er_ * et_ + em_ * (m_ - el_)))
            prm = calgen.Param("vector" if sc.F > 1 else "scalar",
                               np.array(vals, dtype=complex))
            st0 = sc.add_reflect([1], [prm])
            st0.entry, st0.form = "single_reflect", sc.form
            st0.full_rows = st0.full_cols = True
            st0.use_null_map = False
            sc.stds = [st0] + sc.stds[:-1]
            nf = 10 ** rng.uniform(-9, -7)
            tr = 10 ** rng.uniform(-2, -1)
            cnt["exact_wide_dynamic_range"] = cnt.get(
                "exact_wide_dynamic_range", 0) + 1
        gk = str(rng.choice(["single", "two", "grid"]))
        s = Script()
        s.op("vc=vnacal_create")
        s.rvec("freq", sc.freqs)
        uid = [0]
        arg = noise_grid(s, sc, rng, nf, tr, gk, "e")
        # exact data need no more than two rounds of weights and V matrices
        # per linear system, however many systems the type has
        itl = int(os.environ.get("C18_ITL", "0")) or (
            int(rng.choice([2, 3])) if rng.random() < 0.3 else None)
        if itl:
            cnt["exact_with_low_iteration_limit"] = cnt.get(
                "exact_with_low_iteration_limit", 0) + 1
        Lw = emit_cal(s, sc, "vw", "w", m_error=[arg], uid=uid, tag="1",
                      iteration_limit=itl)
        Lu = emit_cal(s, sc, "vu", "u", uid=uid, tag="2")
        # enabled then disabled again
        Ld = emit_cal(s, sc, "vd_", "d", m_error=[arg, "NULL 1 NULL NULL"],
                      uid=uid, tag="3")
        duts = sc.rand_dut()
        s.op("vd=vnadata_alloc")
        out = {}
        if sc.can_apply():
            for nm in ("w", "u", "d"):
                _, out[nm] = sc.emit_apply(s, duts, nm, form="m",
                                           ci="$ci_" + nm, tag="q" + nm)
        cid = "x%d_%d" % (chunk_id, k)
        cases.append((cid, s.text()))
        meta[cid] = (sc, kappa, Lw, Lu, Ld, out, duts, dict(nf=nf, tr=tr, grid=gk))
    wd = os.path.join(workroot, "wx%d" % chunk_id)
    results = R.run_cases(binary, cases, wd, timeout=1800, watchdog=60)
    for cid, text in cases:
        res = results[cid]
        sc, kappa, Lw, Lu, Ld, out, duts, info = meta[cid]
        v, inc = R.standard_violations(res, text, PROP)
        part["violations"] += v
        part["inconclusive"] += inc
        if res.status != "ok":
            continue

        def bad(what, desc):
            part["violations"].append(dict(
                key="%s:exact:%s:%s" % (PROP, what, sc.ctype),
                desc="%s %dx%d F=%d form=%s %s: %s" % (
                    sc.ctype, sc.r, sc.c, sc.F, sc.form, info, desc),
                script=text))
        okadds = all((res.ev(ln) or {}).get("ret") == 0
                     for L_ in (Lw, Lu, Ld) for ln in L_["add"])
        if not okadds:
            e = [res.ev(ln) for L_ in (Lw, Lu, Ld) for ln in L_["add"]
                 if (res.ev(ln) or {}).get("ret") != 0][:1]
            bad("add-refused", "standard refused: %s" % e)
            continue
        ew, eu, ed = (res.ev(Lw["solve"]), res.ev(Lu["solve"]),
                      res.ev(Ld["solve"]))
        if None in (ew, eu, ed):
            continue
        part["evaluations"] += 1
        part["distinct"].add(("exact", sc.ctype, sc.r, sc.c, sc.form,
                              info["grid"], info["tr"] is None,
                              info["tr"] == 0.0))
        cnt["exact_solves"] = cnt.get("exact_solves", 0) + 1
        if eu.get("ret") != 0:
            bad("unweighted-failed", str(eu))
            continue
        if ew.get("ret") != 0:
            bad("rejected", "exact data with measurement-error modelling "
                "were not solved: %s" % ew)
            continue
        if ed.get("ret") != 0:
            bad("disable-failed", str(ed))
            continue
        if not out:
            continue
        Sw, Su, Sd = (get_S(res, out["w"], sc.p), get_S(res, out["u"], sc.p),
                      get_S(res, out["d"], sc.p))
        if Sw is None or Su is None or Sd is None:
            bad("apply-failed", "apply after a weighted solve failed")
            continue
        dw = max(float(np.max(np.abs(a - b))) if np.all(np.isfinite(a))
                 else float("inf") for a, b in zip(Sw, Su))
        dd = max(float(np.max(np.abs(a - b))) if np.all(np.isfinite(a))
                 else float("inf") for a, b in zip(Sd, Su))
        tol = 1e-7 * (1 + kappa)
        part["maxima"]["exact_max_diff_over_tol"] = max(
            part["maxima"].get("exact_max_diff_over_tol", 0.0), dw / tol)
        if not (dw <= tol):
            bad("weighted-differs", "weighted and unweighted calibrations of "
                "exact data correct differently: %.3g (tolerance %.3g)" % (
                    dw, tol))
        if dd != 0.0:
            bad("disable-not-restored", "after set_m_error(NULL, NULL) the "
                "result differs from the never-weighted run by %.3g" % dd)
        if len(part["samples"]) < 1:
            part["samples"].append(dict(kind="exact", type=sc.ctype, rows=sc.r,
                                        cols=sc.c, info=str(info), diff=dw))
    return part


def work_rates(chunk_id, payload):
    seed, n, binary, workroot, outlier = payload[:5]
    lo_share = payload[5] if len(payload) > 5 else 0.0
    rng = np.random.default_rng([seed, chunk_id, 2828, int(outlier)])
    part = dict(evaluations=0, counters={}, maxima={}, distinct=set(),
                samples=[], violations=[], inconclusive=[], harness_errors=[])
    cnt = part["counters"]
    cases, meta = [], {}
    for k in range(n):
        ctype = physics.TYPES[(chunk_id + k) % 8]
        regime = REGIMES[((chunk_id + k) // 8) % len(REGIMES)]
        p = int(rng.choice([1, 2, 2, 2, 3]))
        if ctype in ("T16", "U16"):
            p = int(rng.choice([1, 2, 2]))
        # "sweep": two frequencies whose noise differs by a factor 10..30 (in
        # either direction); every frequency is judged with its own sigma
        F = 2 if regime == "sweep" else 1
        unequal = (not outlier) and regime == "floor" and \
            ctype in physics.COLUMN_TYPES and rng.random() < 0.5
        if unequal:
            sc, kappa, regime = unequal_scenario(rng, ctype, F, lo_share)
        else:
            sc, kappa = scenario(rng, ctype, p, p, F, leak_samples=6)
        if sc is None:
            continue
        if ctype in ("T16", "U16"):
            sc.stds = [st for st in sc.stds if st.n == sc.p]
            if not (sc.well_determined(300.0)[0] and overdetermined(sc)):
                continue
        nfv = None
        if regime in ("floor", "unequal", "unequal-lo"):
            nf, tr = 10 ** rng.uniform(-5, -3), None
        elif regime == "sweep":
            nf, tr = 10 ** rng.uniform(-5, -3.5), None
            ratio = 10 ** rng.uniform(1.0, 1.5)
            nfv = [nf, nf * ratio] if rng.random() < 0.5 else [nf * ratio, nf]
        elif regime == "mixed":
            nf = 10 ** rng.uniform(-5, -3)
            tr = nf * 10 ** rng.uniform(-0.5, 0.5)
        else:
            nf = 10 ** rng.uniform(-7, -6)
            tr = 10 ** rng.uniform(-4, -2.5)
        # noise of exactly the declared size on every measurement cell
        for st in sc.stds:
            st.noise = []
            for f in range(F):
                M = sc.enet[f].measure(st.S_full(f, sc.p))
                nf_f = nfv[f] if nfv else nf
                sig = np.sqrt(nf_f ** 2 + (tr or 0.0) ** 2 * np.abs(M) ** 2)
                st.noise.append(sig * (rng.standard_normal(M.shape) + 1j *
                                       rng.standard_normal(M.shape)) /
                                np.sqrt(2))
        if outlier:
            # the displaced standard must be redundant: without it the rest
            # still determines every error term (otherwise the least-squares
            # fit simply absorbs the displacement and nothing can notice)
            cand = []
            for j in rng.permutation(len(sc.stds)):
                rest = [x for i_, x in enumerate(sc.stds) if i_ != j]
                res_, lk_ = sc.classify(0, rest)
                if lk_ and all(a["nullity"] == 1 and a["kappa"] <= 1e3 and
                               a["equations"] >= a["unknowns"] + 3
                               for a in res_):
                    cand.append(int(j))
                    break
            if not cand:
                cnt["outlier_no_redundant_standard"] = cnt.get(
                    "outlier_no_redundant_standard", 0) + 1
                continue
            st = sc.stds[cand[0]]
            fo = F - 1      # displaced at the last frequency only
            M = sc.enet[fo].measure(st.S_full(fo, sc.p))
            nf_f = nfv[fo] if nfv else nf
            sig = np.sqrt(nf_f ** 2 + (tr or 0.0) ** 2 * np.abs(M) ** 2)
            ph = np.exp(1j * rng.uniform(0, 2 * np.pi, M.shape))
            st.noise = list(st.noise)
            st.noise[fo] = st.noise[fo] + 100.0 * sig * ph
        s = Script()
        s.op("vc=vnacal_create")
        s.rvec("freq", sc.freqs)
        if nfv:
            s.rvec("en", nfv)
            arg = "%s 2 @en NULL" % ("NULL" if rng.random() < 0.5 else "@freq")
        else:
            arg = noise_grid(s, sc, rng, nf, tr, "single", "e")
        L = emit_cal(s, sc, "vw", "w", m_error=[arg], pvalue=ALPHA, uid=[0],
                     tag="1")
        cid = "r%d_%d" % (chunk_id, k)
        cases.append((cid, s.text()))
        meta[cid] = (sc, L, regime)
    wd = os.path.join(workroot, "wr%d_%d" % (chunk_id, int(outlier)))
    results = R.run_cases(binary, cases, wd, timeout=1800, watchdog=60)
    for cid, text in cases:
        res = results[cid]
        sc, L, regime = meta[cid]
        v, inc = R.standard_violations(res, text, PROP)
        part["violations"] += v
        part["inconclusive"] += inc
        if res.status != "ok":
            continue
        if not all((res.ev(ln) or {}).get("ret") == 0 for ln in L["add"]):
            cnt["rate_add_refused"] = cnt.get("rate_add_refused", 0) + 1
            continue
        es = res.ev(L["solve"])
        if es is None or "ret" not in es:
            continue
        part["evaluations"] += 1
        what = "outlier" if outlier else "rate"
        key = "%s:%s:%s" % (what, sc.ctype, regime)
        part["distinct"].add((what, sc.ctype, sc.p, regime))
        cnt["n:" + key] = cnt.get("n:" + key, 0) + 1
        if es["ret"] != 0:
            cbs = [c_ for c_ in es.get("cb", []) if c_[0] != "WARNING"]
            if es.get("errno") != "EDOM" or len(cbs) != 1 or cbs[0][0] != "MATH":
                part["violations"].append(dict(
                    key="%s:%s:failure-report:%s" % (PROP, what, sc.ctype),
                    desc="rejected solve must be -1/EDOM with one MATH "
                         "message: %s" % es, script=text))
            cnt["rej:" + key] = cnt.get("rej:" + key, 0) + 1
            if not outlier and len(part["samples"]) < 1:
                part["samples"].append(dict(kind="rate", type=sc.ctype,
                                            regime=regime, event=str(es)[:300]))
    return part


def work_twin(chunk_id, payload):
    """the same noise law sigma(f) = a + b f given twice: sampled on the
    calibration grid (no interpolation needed) and on its own coarser grid of
    2..4 knots that spans the band but shares no point with it.  Any spline
    reproduces a straight line, so both descriptions mean the same sigma at
    every calibration frequency and the two weighted solves of the same noisy
    data must agree."""
    seed, n, binary, workroot = payload
    rng = np.random.default_rng([seed, chunk_id, 3838])
    part = dict(evaluations=0, counters={}, maxima={}, distinct=set(),
                samples=[], violations=[], inconclusive=[], harness_errors=[])
    cnt = part["counters"]
    cases, meta = [], {}
    for k in range(n):
        ctype = physics.TYPES[(chunk_id + k) % 8]
        p = int(rng.choice([1, 2, 2]))
        F = int(rng.choice([3, 4, 6]))
        sc, kappa = scenario(rng, ctype, p, p, F, leak_samples=3)
        if sc is None:
            continue
        if ctype in ("T16", "U16"):
            sc.stds = [st for st in sc.stds if st.n == sc.p]
            if not (sc.well_determined(300.0)[0] and overdetermined(sc)):
                continue
        fr = np.array(sc.freqs, dtype=float)
        lo, hi = fr[0], fr[-1]
        K = int(rng.choice([2, 3, 4]))
        g0, g1 = lo * rng.uniform(0.5, 0.95), hi * rng.uniform(1.05, 1.5)
        knots = np.array(sorted([g0, g1] + list(
            rng.uniform(lo, hi, K - 2))))
        # straight lines through positive end values; the two laws have
        # different slopes (one may be flat)
        def line(v0, v1):
            return lambda f: v0 + (v1 - v0) * (f - g0) / (g1 - g0)
        n0 = 10 ** rng.uniform(-5, -3.5)
        nfl = line(n0, n0 if rng.random() < 0.5 else
                   n0 * 10 ** rng.uniform(-0.7, 0.7))
        t0 = 10 ** rng.uniform(-3.5, -2)
        trl = line(t0, t0 * 10 ** (rng.choice([-1, 1]) * rng.uniform(0.5, 1.0)))
        for st in sc.stds:
            st.noise = []
            for f in range(F):
                M = sc.enet[f].measure(st.S_full(f, sc.p))
                sig = np.sqrt(nfl(fr[f]) ** 2 + trl(fr[f]) ** 2 * np.abs(M) ** 2)
                st.noise.append(sig * (rng.standard_normal(M.shape) + 1j *
                                       rng.standard_normal(M.shape)) / np.sqrt(2))
        s = Script()
        s.op("vc=vnacal_create")
        s.rvec("freq", sc.freqs)
        s.rvec("an", [nfl(x) for x in fr])
        s.rvec("at", [trl(x) for x in fr])
        s.rvec("bf", list(knots))
        s.rvec("bn", [nfl(x) for x in knots])
        s.rvec("bt", [trl(x) for x in knots])
        argA = "%s %d @an @at" % ("NULL" if rng.random() < 0.5 else "@freq", F)
        argB = "@bf %d @bn @bt" % K
        uid = [0]
        La = emit_cal(s, sc, "va", "a", m_error=[argA], uid=uid, tag="1")
        Lb = emit_cal(s, sc, "vb", "b", m_error=[argB], uid=uid, tag="2")
        duts = sc.rand_dut()
        s.op("vd=vnadata_alloc")
        out = {}
        for nm in ("a", "b"):
            _, out[nm] = sc.emit_apply(s, duts, nm, form="m", ci="$ci_" + nm,
                                       tag="q" + nm)
        cid = "t%d_%d" % (chunk_id, k)
        cases.append((cid, s.text()))
        meta[cid] = (sc, kappa, La, Lb, out, dict(knots=K, F=F))
    wd = os.path.join(workroot, "wt%d" % chunk_id)
    results = R.run_cases(binary, cases, wd, timeout=1800, watchdog=60)
    for cid, text in cases:
        res = results[cid]
        sc, kappa, La, Lb, out, info = meta[cid]
        v, inc = R.standard_violations(res, text, PROP)
        part["violations"] += v
        part["inconclusive"] += inc
        if res.status != "ok":
            continue

        def bad(what, desc):
            part["violations"].append(dict(
                key="%s:twin:%s:%s" % (PROP, what, sc.ctype),
                desc="%s %dx%d F=%d %s: %s" % (sc.ctype, sc.r, sc.c, sc.F,
                                               info, desc),
                script=text))
        if not all((res.ev(ln) or {}).get("ret") == 0
                   for L_ in (La, Lb) for ln in L_["add"]):
            cnt["twin_add_refused"] = cnt.get("twin_add_refused", 0) + 1
            continue
        ea, eb = res.ev(La["solve"]), res.ev(Lb["solve"])
        if ea is None or eb is None or "ret" not in ea or "ret" not in eb:
            continue
        part["evaluations"] += 1
        cnt["twin_pairs"] = cnt.get("twin_pairs", 0) + 1
        part["distinct"].add(("twin", sc.ctype, sc.p, info["knots"], info["F"]))
        if ea["ret"] != eb["ret"]:
            bad("verdict-differs", "the same noise law given on the "
                "calibration grid and on its own %d-knot grid: solve returned "
                "%s (%s) vs %s (%s)" % (info["knots"], ea["ret"],
                                        ea.get("errno"), eb["ret"],
                                        eb.get("errno")))
            continue
        if ea["ret"] != 0:
            cnt["twin_both_rejected"] = cnt.get("twin_both_rejected", 0) + 1
            continue
        Sa, Sb = get_S(res, out["a"], sc.p), get_S(res, out["b"], sc.p)
        if Sa is None or Sb is None:
            bad("apply-failed", "apply after a weighted solve failed")
            continue
        d = max(float(np.max(np.abs(a - b))) if np.all(np.isfinite(a)) and
                np.all(np.isfinite(b)) else float("inf")
                for a, b in zip(Sa, Sb))
        tol = 1e-8 * (1 + kappa)
        part["maxima"]["twin_max_diff_over_tol"] = max(
            part["maxima"].get("twin_max_diff_over_tol", 0.0), d / tol)
        if not (d <= tol):
            bad("interpolated-noise-differs", "the same straight-line noise "
                "law given on the calibration grid and on its own %d-knot "
                "grid gives calibrations that correct a device differently "
                "by %.3g (tolerance %.3g)" % (info["knots"], d, tol))
    return part


def work_redeclare(chunk_id, payload):
    """vnacal_new_set_m_error may be called any number of times; the last
    declaration is the one in force.  One vnacal_new_t receives 1..3 earlier,
    different declarations (other sizes, other grids, with / without the
    signal-proportional part, disabled) and then the final one; its twin
    receives only the final one.  Same noisy data (drawn for the final law):
    same verdict, same calibration."""
    seed, n, binary, workroot = payload
    rng = np.random.default_rng([seed, chunk_id, 3939])
    part = dict(evaluations=0, counters={}, maxima={}, distinct=set(),
                samples=[], violations=[], inconclusive=[], harness_errors=[])
    cnt = part["counters"]
    cases, meta = [], {}
    for k in range(n):
        ctype = physics.TYPES[(chunk_id + k) % 8]
        p = int(rng.choice([1, 2, 2]))
        F = int(rng.choice([1, 3, 4]))
        sc, kappa = scenario(rng, ctype, p, p, F, leak_samples=3)
        if sc is None:
            continue
        if ctype in ("T16", "U16"):
            sc.stds = [st for st in sc.stds if st.n == sc.p]
            if not (sc.well_determined(300.0)[0] and overdetermined(sc)):
                continue
        nf = 10 ** rng.uniform(-5, -3.5)
        final_tr = None if rng.random() < 0.5 else 10 ** rng.uniform(-3.5, -2)
        for st in sc.stds:
            st.noise = []
            for f in range(F):
                M = sc.enet[f].measure(st.S_full(f, sc.p))
                sig = np.sqrt(nf ** 2 + (final_tr or 0.0) ** 2 * np.abs(M) ** 2)
                st.noise.append(sig * (rng.standard_normal(M.shape) + 1j *
                                       rng.standard_normal(M.shape)) / np.sqrt(2))
        s = Script()
        s.op("vc=vnacal_create")
        s.rvec("freq", sc.freqs)
        steps, kinds = [], []
        for j in range(int(rng.integers(1, 4))):
            kind = str(rng.choice(["single", "two", "full", "off"]))
            if kind == "off":
                steps.append("NULL %d NULL NULL" % F)
            else:
                tr_ = None if rng.random() < 0.3 else 10 ** rng.uniform(-3, -1)
                steps.append(noise_grid(s, sc, rng, 10 ** rng.uniform(-6, -2),
                                        tr_, kind, "e%d" % j))
                kind += "+tr" if tr_ is not None else ""
            kinds.append(kind)
        fkind = str(rng.choice(["single", "two", "full"]))
        final = noise_grid(s, sc, rng, nf, final_tr, fkind, "fin")
        uid = [0]
        La = emit_cal(s, sc, "va", "a", m_error=steps + [final], uid=uid,
                      tag="1")
        Lb = emit_cal(s, sc, "vb", "b", m_error=[final], uid=uid, tag="2")
        duts = sc.rand_dut()
        s.op("vd=vnadata_alloc")
        out = {}
        for nm in ("a", "b"):
            _, out[nm] = sc.emit_apply(s, duts, nm, form="m", ci="$ci_" + nm,
                                       tag="q" + nm)
        cid = "r%d_%d" % (chunk_id, k)
        cases.append((cid, s.text()))
        meta[cid] = (sc, kappa, La, Lb, out, dict(
            earlier=kinds, final=fkind + ("+tr" if final_tr else "")))
    wd = os.path.join(workroot, "wr%d" % chunk_id)
    results = R.run_cases(binary, cases, wd, timeout=1800, watchdog=60)
    for cid, text in cases:
        res = results[cid]
        sc, kappa, La, Lb, out, info = meta[cid]
        v, inc = R.standard_violations(res, text, PROP)
        part["violations"] += v
        part["inconclusive"] += inc
        if res.status != "ok":
            continue

        def bad(what, desc):
            part["violations"].append(dict(
                key="%s:redeclare:%s:%s" % (PROP, what, sc.ctype),
                desc="%s %dx%d F=%d %s: %s" % (sc.ctype, sc.r, sc.c, sc.F,
                                               info, desc),
                script=text))
        if not all((res.ev(ln) or {}).get("ret") == 0
                   for L_ in (La, Lb) for ln in L_["add"]):
            cnt["redeclare_add_refused"] = cnt.get("redeclare_add_refused", 0) + 1
            continue
        ea, eb = res.ev(La["solve"]), res.ev(Lb["solve"])
        if ea is None or eb is None or "ret" not in ea or "ret" not in eb:
            continue
        part["evaluations"] += 1
        cnt["redeclare_pairs"] = cnt.get("redeclare_pairs", 0) + 1
        part["distinct"].add(("redeclare", sc.ctype, tuple(info["earlier"]),
                              info["final"]))
        if ea["ret"] != eb["ret"]:
            bad("verdict-differs", "declared %s then %s: solve returned %s "
                "(%s); declared only %s: %s (%s)" % (
                    info["earlier"], info["final"], ea["ret"], ea.get("errno"),
                    info["final"], eb["ret"], eb.get("errno")))
            continue
        if ea["ret"] != 0:
            cnt["redeclare_both_rejected"] = cnt.get(
                "redeclare_both_rejected", 0) + 1
            continue
        Sa, Sb = get_S(res, out["a"], sc.p), get_S(res, out["b"], sc.p)
        if Sa is None or Sb is None:
            bad("apply-failed", "apply after a weighted solve failed")
            continue
        d = max(float(np.max(np.abs(a - b))) if np.all(np.isfinite(a)) and
                np.all(np.isfinite(b)) else float("inf")
                for a, b in zip(Sa, Sb))
        tol = 1e-10 * (1 + kappa)
        part["maxima"]["redeclare_max_diff_over_tol"] = max(
            part["maxima"].get("redeclare_max_diff_over_tol", 0.0), d / tol)
        if not (d <= tol):
            bad("earlier-declaration-leaks", "an error model declared after "
                "earlier, different declarations gives a calibration that "
                "corrects a device differently by %.3g from the one declared "
                "once (tolerance %.3g)" % (d, tol))
    return part


def binom_interval(p, n, z=4.42):
    """half-width of a ~99.999 % normal-approximation interval"""
    return z * math.sqrt(max(p * (1 - p), 1e-12) / max(n, 1))


def main():
    chk = R.Check(PROP)
    binary = chk.build("asan")
    quick = chk.tier == "quick"
    n_exact = int((240 if quick else 6000) * chk.args.scale)
    n_rate = int((8 * 4 * 150 if quick else 8 * 4 * 1500) * chk.args.scale)
    n_out = int((8 * 4 * 64 if quick else 8 * 4 * 300) * chk.args.scale)
    nch = 16 if quick else 48
    for part in R.pmap(work_exact, [(chk.seed, max(1, n_exact // nch), binary,
                                    chk.workroot) for _ in range(nch)]):
        chk.merge(part)
    # chunk sizes are multiples of 32 so that every (type, regime) cell gets
    # the same share
    per = max(32, (n_rate // nch) // 32 * 32)
    for part in R.pmap(work_rates, [(chk.seed, per, binary, chk.workroot, False,
                                     0.0 if quick else 0.3)
                                    for _ in range(nch)]):
        chk.merge(part)
    per = max(32, (n_out // nch) // 32 * 32)
    for part in R.pmap(work_rates, [(chk.seed, per, binary, chk.workroot, True)
                                    for _ in range(nch)]):
        chk.merge(part)
    n_twin = int((160 if quick else 4000) * chk.args.scale)
    for part in R.pmap(work_twin, [(chk.seed, max(1, n_twin // nch), binary,
                                   chk.workroot) for _ in range(nch)]):
        chk.merge(part)
    n_re = int((160 if quick else 4000) * chk.args.scale)
    for part in R.pmap(work_redeclare, [(chk.seed, max(1, n_re // nch), binary,
                                        chk.workroot) for _ in range(nch)]):
        chk.merge(part)
    rates = {}
    for k in sorted(chk.counters):
        if k.startswith("n:"):
            key = k[2:]
            n = chk.counters[k]
            rej = chk.counters.get("rej:" + key, 0)
            rates[key] = dict(n=n, rejected=rej, rate=rej / n if n else None)
    for key, v in rates.items():
        what, ctype, regime = key.split(":")
        n, rate = v["n"], v["rate"]
        if n < 30:
            chk.inconclusive["too-few-samples:" + key] = n
            continue
        if what == "rate":
            lo = ALPHA / 5 - binom_interval(ALPHA / 5, n)
            hi = 4 * ALPHA + binom_interval(4 * ALPHA, n)
            v["bounds"] = [lo, hi]
            if not (lo <= rate <= hi):
                chk.violation(
                    "C18:rate-out-of-bounds:%s:%s" % (ctype, regime),
                    "with Gaussian noise of exactly the declared size "
                    "(regime %s) %s rejects %d of %d calibrations (%.1f %%) "
                    "at significance %.2f; accepted band %.1f %% .. %.1f %%"
                    % (regime, ctype, v["rejected"], n, 100 * rate, ALPHA,
                       100 * max(lo, 0), 100 * hi))
        else:
            lo = 0.9 - binom_interval(0.9, n)
            v["bounds"] = [lo, 1.0]
            if rate < lo:
                chk.violation(
                    "C18:outlier-accepted:%s:%s" % (ctype, regime),
                    "a standard displaced by 100 sigma was rejected in only "
                    "%d of %d calibrations (%.1f %%)" % (
                        v["rejected"], n, 100 * rate))
    for k in list(chk.counters):
        if k.startswith(("n:", "rej:")):
            del chk.counters[k]
    chk.finish(
        rule="exact: over-determined known standards with exact data, m_error "
             "with nf 1e-6..1e-2, tr NULL/0/1e-5..1e-1, noise grids of 1, 2, N "
             "points, m and a/b forms, weighted vs unweighted vs "
             "enabled-then-disabled; rates: single-frequency scenarios with "
             "complex Gaussian noise E|n|^2 = nf^2 + tr^2 |m|^2 per (type, "
             "regime) cell at significance 0.05; outlier: one standard moved "
             "by 100 sigma; twin: F = 3..6, noise law nf(f), tr(f) linear in f "
             "with different slopes, given on the calibration grid and on a "
             "2..4-knot grid of its own; redeclare: 1..3 earlier different "
             "declarations (other sizes / grids / with or without tracking "
             "part / disabled) before the final one vs the final one alone; "
             "distinct = distinct (sub-check, type, shape, form, "
             "grid / regime) tuples",
        min_events=50,
        assumptions=["rate clauses are statistical: bounds [alpha/5, 4 alpha] "
                     "widened by a 99.999 % binomial interval",
                     "leakage types get >= 6 leakage samples per cell",
                     "T16/U16 scenarios use complete-S standards only, as "
                     "vnacal_new(3) requires with measurement-error modelling"],
        extra=dict(rates=rates))


if __name__ == "__main__":
    main()
