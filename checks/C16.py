#!/usr/bin/env python3-vt
"""C16: calibration and parameter handles stay valid, distinct and correctly
indexed.

Monitor: histories of ~100 operations (pylib/gen_handles.py) over one or two
vnacal_t with 1..3 vnacal_new_t each are replayed under ASan/UBSan/LSan; the
event log is compared operation by operation with the abstract vnacal_t of
pylib/calmodel.py (calibration table keyed by index and name, separate
property roots, live parameter handles).  A handle deleted while a
vnacal_new_t uses it must keep working there: TWIN RUN -- the same history
without those deletions (and without the probes of the deleted handles) must
produce an identical log for every operation that is not a parameter call
(solve results, returned indices, dumps, applied S, the saved file at maximum
precision).  Applying a calibration through the index returned by
vnacal_add_calibration must recover the device the scenario measured.
"""
import os
import sys

import numpy as np

sys.path.insert(0, os.path.join(os.path.dirname(os.path.abspath(__file__)),
                                "..", "pylib"))
import calmodel  # noqa: E402
import gen_handles  # noqa: E402
import runner as R  # noqa: E402

PROP = "C16"
TOL = 1e-11
PARAM_OPS = ("vnacal_make_", "vnacal_delete_parameter",
             "vnacal_get_parameter_value")


def twin_view(res, drop_lines=()):
    out = []
    for ev in res.events:
        if ev.get("i") in drop_lines:
            continue
        op = ev.get("op", "")
        if op.startswith(PARAM_OPS):
            continue
        ret = ev.get("ret")
        if isinstance(ret, str) and ret.startswith("obj#"):
            ret = "obj"
        out.append((op, ret, ev.get("errno"), ev.get("cb"),
                    ev.get("out"), ev.get("skipped")))
    return out


def judge_apply(ap, res, mon, text, part):
    cnt = part["counters"]
    ea = res.ev(ap["apply"])
    seen = mon.apply_seen.get(ap["apply"])
    if ea is None or seen is None or seen[1] != ap["addcal"]:
        cnt["apply_other_or_gone"] = cnt.get("apply_other_or_gone", 0) + 1
        return
    sc = ap["sc"]

    def bad(what, desc):
        part["violations"].append(dict(
            key="%s:%s:vnacal_apply" % (PROP, what),
            desc="%s %dx%d F=%d, calibration added at line %d, applied through "
                 "index %r at line %d: %s" % (sc.ctype, sc.r, sc.c, sc.F,
                                              ap["addcal"], seen[0],
                                              ap["apply"], desc),
            script=text))
    if ea.get("ret") != 0:
        bad("apply-failed", str(ea))
        return
    d = res.ev(ap["dump"])
    if d is None or "out" not in d:
        return
    out = d["out"]
    p = sc.p
    if (out["rows"], out["cols"], out["F"]) != (p, p, sc.F):
        bad("apply-shape", str({k: out[k] for k in ("rows", "cols", "F")}))
        return
    worst = 0.0
    for f in range(sc.F):
        got = np.array([complex(a, b) for a, b in out["data"][f]]).reshape(p, p)
        err = float(np.max(np.abs(got - ap["duts"][f]))) \
            if np.all(np.isfinite(got)) else float("inf")
        worst = max(worst, err)
    tol = 1e-10 if getattr(sc, "iterative", False) else TOL
    rel = worst / (tol * (1 + ap["kappa"]))
    part["maxima"]["apply_err_over_tol"] = max(
        part["maxima"].get("apply_err_over_tol", 0.0), rel)
    cnt["apply_checked"] = cnt.get("apply_checked", 0) + 1
    if not rel <= 1.0:
        bad("apply-wrong-calibration",
            "corrected S differs from the device by %.3g: index does not "
            "refer to the calibration that was added" % worst)


def judge_resolve(g, res, text, part):
    """the same unknown handle solved several times on different grids"""
    cnt = part["counters"]

    def bad(what, desc):
        part["violations"].append(dict(
            key="%s:%s:vnacal_get_parameter_value" % (PROP, what),
            desc="%s reflect handle solved by %s / %s (%s, %s): %s" % (
                g.kind, g.shape[2], g.shape[3], g.shape[0], g.shape[1], desc),
            script=text))
    for c in g.checks:
        sv, ev = res.ev(c["solve"]), res.ev(c["line"])
        if sv is None or ev is None or "ret" not in ev:
            continue
        if sv.get("ret") != 0:
            cnt["resolve_solve_failed"] = cnt.get("resolve_solve_failed", 0) + 1
            continue
        cnt["resolve_values_checked"] = cnt.get("resolve_values_checked", 0) + 1
        worst = 0.0
        for got, want in zip(ev["ret"], c["truth"]):
            z = complex(got[0], got[1])
            worst = max(worst, abs(z - want) if np.isfinite(z)
                        else float("inf"))
        if len(ev["ret"]) != len(c["truth"]):
            worst = float("inf")
        if g.kind == "correlated" and np.isfinite(worst):
            cnt["resolve_correlated_finite"] = cnt.get(
                "resolve_correlated_finite", 0) + 1
            continue
        rel = worst / (1e-12 * (1 + c["kappa"]))
        part["maxima"]["resolve_err_over_tol"] = max(
            part["maxima"].get("resolve_err_over_tol", 0.0),
            rel if np.isfinite(rel) else 1e300)
        if not rel <= 1.0:
            bad("resolved-unknown-value",
                "%s (solve at line %d): vnacal_get_parameter_value on that "
                "grid returns %s, solved (true) values are %s" % (
                    c["what"], c["solve"], ev["ret"],
                    [complex(x) for x in c["truth"]]))
    for c in g.outside:
        ev = res.ev(c["line"])
        if ev is None or "ret" not in ev:
            continue
        if c["solve"] is not None:
            sv = res.ev(c["solve"])
            if sv is None or sv.get("ret") != 0:
                continue
        cnt["resolve_outside_checked"] = cnt.get(
            "resolve_outside_checked", 0) + 1
        okv = [x for x in ev["ret"] if not (isinstance(x[0], float) and
                                            np.isinf(x[0]))]
        if okv:
            bad("resolved-unknown-out-of-range-accepted",
                "%s: frequencies far outside the grid of the latest solve "
                "evaluate to %s" % (c["what"], ev["ret"]))


def judge_shift(g, res, text, part):
    """the same calibration under low and under shifted, sparse handles"""
    cnt = part["counters"]
    La, Lb = g.L["a"], g.L["b"]

    def bad(what, desc):
        part["violations"].append(dict(
            key="%s:handle-shift:%s" % (PROP, what),
            desc="%s %dx%d, %d standards, unknown reflect in %d of them, "
                 "second vnacal_t with %d parameters before the calibration%s:"
                 " %s" % (g.sc.ctype, g.sc.r, g.sc.c, g.info["standards"],
                          g.shape[3], g.info["shift"],
                          " (some deleted again)" if g.info["holes"] else "",
                          desc),
            script=text))
    adds_a = [(res.ev(l) or {}).get("ret") for l in La["add"]]
    adds_b = [(res.ev(l) or {}).get("ret") for l in Lb["add"]]
    if adds_a != adds_b:
        bad("add-differs", "vnacal_new_add_* returned %s under low handles, "
            "%s under shifted handles" % (adds_a, adds_b))
        return
    if any(x != 0 for x in adds_a):
        # every standard of these scenarios is valid, also the ones that
        # name a parameter whose guess / correlate was deleted after it was
        # made (the parameter holds what it refers to)
        i_ = [k for k, x in enumerate(adds_a) if x != 0][0]
        bad("valid-standard-refused", "the shared unknown was made %s; "
            "standard %d was refused: %s" % (g.shape[6], i_ + 1,
                                             res.ev(La["add"][i_])))
        return
    sa, sb = res.ev(La["solve"]), res.ev(Lb["solve"])
    if sa is None or sb is None or "ret" not in sa or "ret" not in sb:
        return
    cnt["shift_pairs"] = cnt.get("shift_pairs", 0) + 1
    part["distinct"].add(("shift",) + g.shape)
    if sa["ret"] != sb["ret"]:
        bad("solve-verdict", "vnacal_new_solve returned %s under low "
            "handles, %s under shifted handles" % (
                (sa["ret"], sa.get("cb")), (sb["ret"], sb.get("cb"))))
        return
    if sa["ret"] != 0:
        cnt["shift_both_failed"] = cnt.get("shift_both_failed", 0) + 1
        return
    tol = 1e-8 * (1 + g.kappa)
    va, vb = res.ev(La["value"]), res.ev(Lb["value"])
    worst = 0.0
    if va is None or vb is None or not isinstance(va.get("ret"), list) or \
            not isinstance(vb.get("ret"), list) or \
            len(va["ret"]) != len(vb["ret"]):
        bad("value-unavailable", "vnacal_get_parameter_value of the solved "
            "unknown: %s / %s" % (va, vb))
        return
    for x, y in zip(va["ret"], vb["ret"]):
        zx, zy = complex(x[0], x[1]), complex(y[0], y[1])
        d = abs(zx - zy) if np.isfinite(zx) and np.isfinite(zy) else \
            float("inf")
        worst = max(worst, d)
    part["maxima"]["shift_value_diff_over_tol"] = max(
        part["maxima"].get("shift_value_diff_over_tol", 0.0), worst / tol)
    if not worst <= tol:
        bad("solved-value", "the solved unknown is %s under low handles and "
            "%s under shifted handles (difference %.3g, tolerance %.3g; "
            "noise of the data about %.1g)" % (
                va["ret"], vb["ret"], worst, tol,
                float(np.abs(g.sc.stds[0].noise[0]).mean())))
        return
    da, db = res.ev(La["dump"]), res.ev(Lb["dump"])
    aa, ab = res.ev(La["apply"]), res.ev(Lb["apply"])
    if aa is None or ab is None or aa.get("ret") != ab.get("ret"):
        bad("apply-verdict", "vnacal_apply_m: %s / %s" % (aa, ab))
        return
    if aa.get("ret") == 0 and da is not None and db is not None:
        if da.get("out") != db.get("out"):
            # not bit for bit: compare the cells
            try:
                ca = np.array(da["out"]["data"], dtype=float).ravel()
                cb_ = np.array(db["out"]["data"], dtype=float).ravel()
                dd = float(np.max(np.abs(ca - cb_))) if ca.shape == cb_.shape \
                    else float("inf")
            except Exception:
                dd = float("inf")
            if not dd <= 1e-6 * (1 + g.kappa):
                bad("corrected-device", "the corrected device differs by "
                    "%.3g between the two" % dd)
                return
        cnt["shift_applies_compared"] = cnt.get(
            "shift_applies_compared", 0) + 1
    if len([x for x in part["samples"] if x.get("kind") == "handle shift"]) < 1:
        part["samples"].append(dict(kind="handle shift", shape=g.shape,
                                    info=g.info, value_low=va["ret"],
                                    value_shifted=vb["ret"]))


def work(chunk_id, payload):
    seed, ncases, nops, binary, workroot = payload
    part = dict(evaluations=0, counters={}, maxima={}, distinct=set(),
                samples=[], violations=[], inconclusive=[], harness_errors=[])
    cnt = part["counters"]
    cases, gens = [], {}
    for k in range(ncases):
        rng = np.random.default_rng([seed, chunk_id, k, 1616])
        g = gen_handles.HandleGen(rng, nvc=2 if rng.random() < 0.2 else 1)
        text = g.generate(nops)
        cid = "a%d_%d" % (chunk_id, k)
        cases.append((cid, text))
        cases.append(("b%d_%d" % (chunk_id, k), g.twin()))
        gens[cid] = g
    rgens = {}
    for k in range(max(2, ncases // 4)):
        rng = np.random.default_rng([seed, chunk_id, k, 1617])
        rg = gen_handles.ResolveGen(rng)
        text = rg.generate()
        if text is not None:
            cases.append(("r%d_%d" % (chunk_id, k), text))
            rgens["r%d_%d" % (chunk_id, k)] = rg
    sgens = {}
    for k in range(max(3, ncases // 2)):
        rng = np.random.default_rng([seed, chunk_id, k, 1618])
        sg = gen_handles.ShiftGen(rng)
        text = sg.generate()
        if text is not None:
            cases.append(("s%d_%d" % (chunk_id, k), text))
            sgens["s%d_%d" % (chunk_id, k)] = sg
    wd = os.path.join(workroot, "w%d" % chunk_id)
    results = R.run_cases(binary, cases, wd, timeout=1800, watchdog=60)
    texts = dict(cases)
    for cid, sg in sgens.items():
        res, text = results[cid], texts[cid]
        v, inc = R.standard_violations(res, text, PROP)
        part["violations"] += v
        part["inconclusive"] += inc
        if res.status in ("driver_error", "notrun"):
            part["harness_errors"].append("%s: %s %s" % (cid, res.status,
                                                         res.detail))
            continue
        if res.status != "ok":
            continue
        part["evaluations"] += 1
        judge_shift(sg, res, text, part)
    for cid, rg in rgens.items():
        res, text = results[cid], texts[cid]
        v, inc = R.standard_violations(res, text, PROP)
        part["violations"] += v
        part["inconclusive"] += inc
        if res.status in ("driver_error", "notrun"):
            part["harness_errors"].append("%s: %s %s" % (cid, res.status,
                                                         res.detail))
            continue
        if res.status != "ok":
            continue
        part["evaluations"] += 1
        mon = calmodel.Monitor(strict_props=True)
        for what, fn, detail in mon.feed(text, res.events):
            part["violations"].append(dict(
                key="%s:%s:%s" % (PROP, what, fn),
                desc="%s: %s" % (fn, detail), script=text))
        part["distinct"].add(("resolve",) + rg.shape)
        judge_resolve(rg, res, text, part)
        if chunk_id == 1 and len(part["samples"]) < 1:
            part["samples"].append(dict(
                kind="unknown handle solved repeatedly", shape=rg.shape,
                script=[l[:120] for l in text.split("\n")
                        if l and not l.startswith("buf ")][:40]))
    for cid, g in gens.items():
        text = texts[cid]
        bid = "b" + cid[1:]
        res, resb = results[cid], results[bid]
        bad_run = False
        for r_, t_ in ((res, text), (resb, texts[bid])):
            v, inc = R.standard_violations(r_, t_, PROP)
            part["violations"] += v
            part["inconclusive"] += inc
            if r_.status in ("driver_error", "notrun"):
                part["harness_errors"].append("%s: %s %s" % (
                    r_.case_id, r_.status, r_.detail))
                bad_run = True
            elif r_.status != "ok":
                bad_run = True
        if bad_run:
            continue
        part["evaluations"] += 1
        # ---- model
        mon = calmodel.Monitor(strict_props=True)
        polluted = False
        for what, fn, detail in mon.feed(text, res.events):
            part["violations"].append(dict(
                key="%s:%s:%s" % (PROP, what, fn),
                desc="%s: %s" % (fn, detail), script=text))
            if what == "dead-handle-accepted" and "_add_" in fn:
                # a probe that should have been refused added a standard:
                # twin and apply would only repeat this root cause
                polluted = True
        monb = calmodel.Monitor(strict_props=True)
        for what, fn, detail in monb.feed(texts[bid], resb.events):
            part["violations"].append(dict(
                key="%s:%s:%s" % (PROP, what, fn),
                desc="%s: %s" % (fn, detail), script=texts[bid]))
        part["distinct"].update(mon.shapes)
        for k_, v_ in mon.counts.items():
            cnt[k_] = cnt.get(k_, 0) + v_
        # ---- tagged lines really happened as intended
        for ln, tag in g.tags.items():
            ev = res.ev(ln)
            if ev is None or "ret" not in ev:
                continue
            cnt["lines_" + tag] = cnt.get("lines_" + tag, 0) + 1
        if polluted:
            cnt["histories_polluted_by_accepted_probe"] = cnt.get(
                "histories_polluted_by_accepted_probe", 0) + 1
            continue
        # ---- twin
        va, vb = twin_view(res, set(g.tags)), twin_view(resb)
        cnt["twin_events_compared"] = cnt.get("twin_events_compared", 0) + \
            min(len(va), len(vb))
        diff = None
        for i in range(max(len(va), len(vb))):
            ea = va[i] if i < len(va) else None
            eb = vb[i] if i < len(vb) else None
            if ea != eb:
                diff = (i, ea, eb)
                break
        if diff is not None:
            i, ea, eb = diff
            op = (ea or eb)[0]
            part["violations"].append(dict(
                key="%s:twin-differs:%s" % (PROP, op),
                desc="the history with parameter deletions (%d deletions of "
                     "handles in use, %d refused probes) and the same history "
                     "without them diverge at compared event %d:\n with:    %s"
                     "\n without: %s" % (
                         sum(1 for t in g.tags.values() if t == "del_inuse"),
                         sum(1 for t in g.tags.values() if t == "probe"),
                         i, str(ea)[:400], str(eb)[:400]),
                script=text))
        # ---- solved unknown parameters evaluate to the truth
        for uc in g.unknown_checks:
            sv, ev = res.ev(uc["solve"]), res.ev(uc["line"])
            seen = mon.values_seen.get(uc["line"])
            if sv is None or ev is None or sv.get("ret") != 0 or \
                    seen != (True, True):
                continue
            cnt["unknown_values_checked"] = cnt.get(
                "unknown_values_checked", 0) + 1
            worst = 0.0
            for got in ev.get("ret") or [[float("inf"), 0]]:
                z = complex(got[0], got[1])
                worst = max(worst, abs(z - uc["truth"])
                            if np.isfinite(z) else float("inf"))
            rel = worst / (1e-11 * (1 + uc["kappa"]))
            part["maxima"]["unknown_err_over_tol"] = max(
                part["maxima"].get("unknown_err_over_tol", 0.0), rel)
            if not rel <= 1.0:
                part["violations"].append(dict(
                    key="%s:solved-unknown-value:vnacal_get_parameter_value"
                        % PROP,
                    desc="unknown reflect solved at line %d: truth %r, "
                         "vnacal_get_parameter_value -> %r" % (
                             uc["solve"], uc["truth"], ev.get("ret")),
                    script=text))
        # ---- applied through returned indices
        for ap in g.applies:
            judge_apply(ap, res, mon, text, part)
        if len(part["samples"]) < 1:
            ops = [l for l in text.split("\n") if l and not l.startswith("buf ")]
            part["samples"].append(dict(
                history=[l[:160] for l in ops[:40]],
                operations=len(ops),
                deletions_in_use=sum(1 for t in g.tags.values()
                                     if t == "del_inuse"),
                probes=sum(1 for t in g.tags.values() if t == "probe")))
    return part


def main():
    chk = R.Check(PROP)
    binary = chk.build("asan")
    if chk.tier == "quick":
        total, nops, nchunks = 1600, 100, 32
    else:
        total, nops, nchunks = 20000, 100, 160
    total = max(nchunks, int(total * chk.args.scale))
    per = max(1, total // nchunks)
    payloads = [(chk.seed, per, nops, binary, chk.workroot)
                for _ in range(nchunks)]
    for part in R.pmap(work, payloads):
        chk.merge(part)
    chk.finish(
        rule="histories of ~100 API operations per vnacal_t mixing "
             "make_{scalar,vector,unknown,correlated}_parameter, "
             "delete_parameter (free, in use, predefined, dead), new_alloc, "
             "add_* of the standards of small calgen scenarios, solve, "
             "add_calibration (new / existing name, unsolved, foreign), "
             "delete_calibration, find, get_*, get_calibration_end, property "
             "calls with ci=-1 and ci>=0, apply through returned indices, "
             "new_free, over 1..3 vnacal_new_t per vnacal_t (1 or 2 vnacal_t); "
             "every history is run twice (with / without the deletions of "
             "handles in use); plus scripts in which one unknown reflect "
             "handle (over-determined) is solved by two vnacal_new_t / "
             "re-solved on disjoint frequency grids with equal or different "
             "point counts and evaluated after every solve; distinct = distinct (operation, model state "
             "shape) pairs with shape = (live calibrations, holes, live "
             "parameters/2, live vnacal_new_t)",
        min_events=16,
        assumptions=["the slot a new calibration name takes and the numbering "
                     "of parameter handles are not specified and not asserted",
                     "numpy.linalg / the physics model of C01 give the truth "
                     "for the apply-through-index check",
                     "solved values of unknown parameters are checked by C02"])


if __name__ == "__main__":
    main()
