#!/usr/bin/env python3-vt
"""C01: calibrate-then-apply recovers the true S-parameters of any device.

Monitor: scenarios from an independent physical model of the VNA (E-term
signal-flow network, pylib/physics.py) are entered through randomly chosen
vnacal_new_add_* entry points; the library solves and applies; an offline
checker compares the corrected S-parameters with the device that was
"measured".  Runs under ASan/UBSan.
"""
import os
import sys

import numpy as np

sys.path.insert(0, os.path.join(os.path.dirname(os.path.abspath(__file__)),
                                "..", "pylib"))
import calgen  # noqa: E402
import physics  # noqa: E402
import runner as R  # noqa: E402
import termfile  # noqa: E402

PROP = "C01"
KAPPA_MAX = 1e4
TOL = 1e-11


def shapes_for(ctype, tier):
    out = []
    top = 4
    for r in range(1, top + 1):
        for c in range(1, top + 1):
            if not physics.dims_ok(ctype, r, c):
                continue
            if r != c and (r, c) not in ((1, 2), (2, 1)):
                continue  # non-appliable shapes are checked through the file
            out.append((r, c))
    return out


RECT = {True: [(1, 3), (2, 3), (1, 4), (2, 4), (3, 4)],
        False: [(3, 1), (3, 2), (4, 1), (4, 2), (4, 3)]}


def judge_file(sc, kappa, lines, res, text, part):
    """shapes apply refuses: the saved terms must satisfy the documented
    equation for every standard that was added"""
    def bad(what, desc):
        part["violations"].append(dict(
            key="%s:%s:%s" % (PROP, what, sc.ctype),
            desc="%s %dx%d F=%d form=%s: %s" % (sc.ctype, sc.r, sc.c, sc.F,
                                                sc.form, desc),
            script=text))
    for i, ln in enumerate(lines["add"]):
        e = res.ev(ln)
        if e is None:
            return False
        if e.get("ret") != 0:
            st = sc.stds[i]
            bad("add-refused:" + st.entry, "valid standard refused: entry=%s "
                "ports=%s full_rows=%s full_cols=%s -> %s" % (
                    st.entry, st.ports, st.full_rows, st.full_cols, e))
            return True
    e = res.ev(lines["solve"])
    if e is None:
        return False
    if e.get("ret") != 0:
        bad("solve-failed", "solve failed on a sufficient set (kappa %.3g): "
            "%s" % (kappa, e))
        return True
    e = res.ev(lines["save"])
    t = res.ev(lines["read"])
    if e is None or t is None or e.get("ret") != 0 or \
            not isinstance(t.get("ret"), str):
        bad("save-failed", "%s / %s" % (e, str(t)[:200]))
        return True
    try:
        cals = termfile.load(t["ret"])
        cal = cals[0]
    except Exception as ex:   # noqa: BLE001
        bad("file-unreadable", "independent reader cannot parse the saved "
            "file: %r" % ex)
        return True
    if (cal["type"], cal["rows"], cal["columns"]) != (sc.ctype, sc.r, sc.c) \
            or len(cal["freq"]) != sc.F:
        bad("file-header", "saved header %s" % {k: cal[k] for k in
                                                ("type", "rows", "columns")})
        return True
    worst = 0.0
    for f in range(sc.F):
        if cal["freq"][f] != sc.freqs[f]:
            bad("file-frequency", "frequency %d saved as %r" % (f, cal["freq"][f]))
            return True
        for st in sc.stds:
            S = st.S_full(f, sc.p)
            M = sc.enet[f].measure(S)
            rr = termfile.residual(sc.ctype, sc.r, sc.c, cal["terms"][f], S, M,
                                   list(range(sc.p)))
            if rr is not None:
                worst = max(worst, rr)
    rel = worst / (1e-9 * (1 + kappa))
    part["maxima"]["max_file_residual_over_tol"] = max(
        part["maxima"].get("max_file_residual_over_tol", 0.0), rel)
    if not (rel <= 1.0):
        bad("saved-terms-violate-equation", "the error terms in the saved file "
            "do not satisfy the documented M/S equation for the added "
            "standards: relative residual %.3g (kappa %.3g)" % (worst, kappa))
    return True


def gen_scenario(rng, ctype, r, c, F, sparse=0):
    for attempt in range(6):
        sc = calgen.Scenario(ctype, r, c, F, rng)
        sc.pre_sparse = sparse
        # a third of the scenarios give some standards as vector parameters
        # on their own frequency grid (rational law in frequency)
        sc.offgrid = rng.random() < 0.33
        # vector standards are sometimes looked at (evaluated high in the
        # band) before the calibration uses them
        sc.prequery = rng.random() < 0.4
        sc.sufficient_recipe(extras=int(rng.integers(0, 4)))
        if r != c and ctype in physics.LEAKAGE_OUTSIDE and rng.random() < 0.5:
            # every standard is measured on its own ports only wherever the
            # API allows it: a leakage cell is then sampled only by the
            # standards that sit on the other side of it (the isolation
            # step of a one-path calibration)
            sc.abbr_all = True
        sc.choose_entries()
        if r == c and r >= 2 and rng.random() < 0.2:
            # partly specified standards: only some columns (T types) or
            # rows (U types) of a multi-port standard's S matrix are given;
            # the set is kept if what is given still determines the terms
            sc.partial_standards = sum(
                1 for st in sc.stds
                if st.n >= 2 and rng.random() < 0.5 and sc.make_partial(st))
        ok, kappa = sc.well_determined(KAPPA_MAX)
        if ok:
            if sc.can_apply() and rng.random() < 0.25:
                # unusual scales: a common receiver gain and reference waves
                # recorded in other units (the device that comes out does not
                # depend on either)
                g = 10.0 ** rng.uniform(-7, 4)
                for en in sc.enet:
                    en.rx_gain = g
                sc.a_scale = 10.0 ** rng.uniform(-7, 4)
                sc.scaled = True
            return sc, kappa, attempt
    return None, None, attempt


def gen_kit_scenario(rng, ctype, p, F):
    """focus family: a characterised kit.  Every standard spans all VNA ports
    and is entered as a full S matrix through vnacal_new_add_mapped_matrix*
    (zeros named explicitly by the caller, not filled in by the library):
    two or three characterised p-ports first, then reflect sets on all
    ports, which are the only leakage samples.  At least eight distinct
    parameters, so the per-calibration parameter table grows while the
    standards are entered."""
    for attempt in range(6):
        sc = calgen.Scenario(ctype, p, p, F, rng)
        ports = list(range(1, p + 1))
        for _ in range(int(rng.integers(2, 4))):
            sc.add_matrix(list(rng.permutation(ports)) if rng.random() < 0.3
                          else ports)
        for _ in range(int(rng.integers(3, 6))):
            sc.add_reflect(ports, [sc.rparam(1.0, False) for _q in ports])
        for st in sc.stds:
            st.form = sc.form
            st.entry = "mapped_matrix"
            st.full_rows = st.full_cols = True
            st.use_null_map = (st.ports == ports and rng.random() < 0.5)
        ok, kappa = sc.well_determined(KAPPA_MAX)
        if ok:
            return sc, kappa, attempt
    return None, None, attempt


def judge(sc, kappa, lines, res, text, part, cell):
    viol = part["violations"]

    def bad(what, desc):
        viol.append(dict(key="%s:%s:%s" % (PROP, what, sc.ctype),
                         desc="%s %dx%d F=%d form=%s: %s" % (
                             sc.ctype, sc.r, sc.c, sc.F, sc.form, desc),
                         script=text))
    for i, ln in enumerate(lines["add"]):
        e = res.ev(ln)
        if e is None:
            return False
        if e.get("ret") != 0:
            st = sc.stds[i]
            bad("add-refused:" + st.entry,
                "valid standard refused: entry=%s ports=%s full_rows=%s "
                "full_cols=%s -> %s" % (st.entry, st.ports, st.full_rows,
                                       st.full_cols, e))
            return True
    e = res.ev(lines["solve"])
    if e is None:
        return False
    if e.get("ret") != 0:
        bad("solve-failed", "vnacal_new_solve failed on a sufficient, "
            "well-conditioned (kappa=%.3g) set of %d known standards: %s" % (
                kappa, len(sc.stds), e))
        return True
    e = res.ev(lines["addcal"])
    if e is None or not isinstance(e.get("ret"), int) or e["ret"] < 0:
        bad("add-calibration-failed", str(e))
        return True
    if "apply" not in lines:
        return True
    e = res.ev(lines["apply"])
    if e is None:
        return False
    if e.get("ret") != 0:
        bad("apply-failed", str(e))
        return True
    d = res.ev(lines["dump"])
    if d is None or "out" not in d:
        return False
    out = d["out"]
    p = sc.p
    if out["rows"] != p or out["cols"] != p or out["F"] != sc.F or \
            out["type"] != 1:
        bad("apply-shape", "output object is %s" % {k: out[k] for k in
                                                     ("type", "rows", "cols", "F")})
        return True
    # vnacal(3) does not say which reference impedances the result carries
    # (the library leaves the 50 ohm default of a freshly initialised
    # object); what must not happen is that those of the object's previous
    # contents show through
    zs = out.get("z0")
    if out.get("has_fz0") or zs is None or any(
            complex(*z) not in (50.0 + 0j, complex(sc.z0)) for z in zs):
        bad("apply-z0-stale", "output object has z0 %s (per-frequency: %s); "
            "expected the default or the calibration's %r" % (
                zs, out.get("has_fz0"), sc.z0))
        return True
    worst = 0.0
    for f in range(sc.F):
        got = np.array([complex(a, b) for a, b in out["data"][f]]).reshape(p, p)
        want = sc.duts[f]
        err = float(np.max(np.abs(got - want))) if np.all(np.isfinite(got)) \
            else float("inf")
        worst = max(worst, err)
        if abs(out["freq"][f] - sc.freqs[f]) > 0:
            bad("apply-frequency", "frequency %d is %r, expected %r" % (
                f, out["freq"][f], sc.freqs[f]))
            return True
    # off-grid vector standards add the interpolation error of the rational
    # law (about 2e-11 on the stock library) on top of rounding
    tol = TOL * (100.0 if getattr(sc, "offgrid", False) else 1.0)
    rel = worst / (tol * (1 + kappa))
    part["maxima"]["max_err_over_tol"] = max(
        part["maxima"].get("max_err_over_tol", 0.0), rel)
    part["maxima"]["max_abs_err"] = max(
        part["maxima"].get("max_abs_err", 0.0), worst)
    if not (rel <= 1.0):
        bad("wrong-s-parameters", "corrected S differs from the device by "
            "%.3g (kappa %.3g, tolerance %.3g); entries used: %s" % (
                worst, kappa, tol * (1 + kappa),
                sorted({s.entry for s in sc.stds})))
    return True


def work(chunk_id, payload):
    seed, tier, ncases, binary, workroot = payload
    rng = np.random.default_rng([seed, chunk_id, 101])
    part = dict(evaluations=0, counters={}, maxima={}, distinct=set(),
                samples=[], violations=[], inconclusive=[], harness_errors=[])
    cnt = part["counters"]
    cases = []
    meta = {}
    for k in range(ncases):
        ctype = physics.TYPES[(chunk_id + k) % 8]
        shapes = shapes_for(ctype, tier)
        wts = np.array([1.0 / (max(r, c) ** 2) for r, c in shapes])
        r, c = shapes[int(rng.choice(len(shapes), p=wts / wts.sum()))]
        filecheck = False
        sparse = 0
        if k % 8 == 7:
            # focus: multi-port standards whose ports are connected only
            # transitively, on the types that keep leakage terms outside the
            # linear system (a wrong connectivity grouping turns signal into
            # "leakage" there)
            ctype = physics.LEAKAGE_OUTSIDE[int(rng.integers(0, 4))]
            r = c = int(rng.choice([3, 4, 4]))
            sparse = 3
        elif termfile.available() and rng.random() < 0.2:
            r, c = RECT[ctype in physics.T_TYPES][int(rng.integers(0, 5))]
            filecheck = True
        F = int(rng.choice([1, 1, 2, 3, 5, 7]))
        if max(r, c) >= 4:
            F = min(F, 2)
        kit = k % 8 == 3
        if kit:
            ctype = physics.LEAKAGE_OUTSIDE[int(rng.integers(0, 4))]
            r = c = int(rng.choice([2, 2, 3]))
            filecheck = False
            sc, kappa, att = gen_kit_scenario(rng, ctype, r, F)
        else:
            sc, kappa, att = gen_scenario(rng, ctype, r, c, F, sparse)
        if sc is None:
            cnt["skipped_not_well_determined"] = cnt.get(
                "skipped_not_well_determined", 0) + 1
            continue
        sc.duts = sc.rand_dut()
        sc.filecheck = filecheck
        sc.reuse_vd = rng.random() < 0.4
        if rng.random() < 0.25:
            sc.z0 = complex(rng.choice([75.0, 50 + 5j, 1.0, 12.5 - 3j]))
        if kit:
            cnt["kit_scenarios"] = cnt.get("kit_scenarios", 0) + 1
        if kit or rng.random() < 0.35:
            # foreign parameters in the same vnacal_t: sparse handles
            sc.foreign_bursts = [int(x) for x in rng.integers(0, 20, 24)]
            sc.foreign_bursts[0] = int(rng.integers(0, 45))
            cnt["scenarios_with_foreign_parameters"] = cnt.get(
                "scenarios_with_foreign_parameters", 0) + 1
        s, lines = calgen.build_script(sc, sc.duts)
        if filecheck:
            s.op("vnacal_set_dprecision $vc 1000")
            s.op("vnacal_set_fprecision $vc 1000")
            lines["save"] = s.op("vnacal_save $vc \"c01.vnacal\"")
            lines["read"] = s.op("read_file \"c01.vnacal\"")
        cid = "c%d_%d" % (chunk_id, k)
        cases.append((cid, s.text()))
        meta[cid] = (sc, kappa, lines)
    wd = os.path.join(workroot, "w%d" % chunk_id)
    results = R.run_cases(binary, cases, wd, timeout=1200)
    for cid, text in cases:
        res = results[cid]
        sc, kappa, lines = meta[cid]
        v, inc = R.standard_violations(res, text, PROP)
        part["violations"] += v
        part["inconclusive"] += inc
        if sc.filecheck:
            done = judge_file(sc, kappa, lines, res, text, part)
            if done:
                cnt["file_equation_checks"] = cnt.get(
                    "file_equation_checks", 0) + 1
        else:
            done = judge(sc, kappa, lines, res, text, part, None)
        if not done:
            continue
        part["evaluations"] += 1
        cnt["standards_added"] = cnt.get("standards_added", 0) + len(sc.stds)
        for st in sc.stds:
            cell = (sc.ctype, sc.r, sc.c, sc.form, st.entry,
                    "fullR" if st.full_rows else "abbrR",
                    "fullC" if st.full_cols else "abbrC",
                    "perm" if st.ports != sorted(st.ports) else "sorted")
            part["distinct"].add(cell)
            k2 = "entry:%s%s" % (st.entry, "_m" if st.form == "m" else "")
            cnt[k2] = cnt.get(k2, 0) + 1
        npart = sum(1 for st in sc.stds if st.partial())
        if npart:
            cnt["scenarios_with_partly_specified_standards"] = cnt.get(
                "scenarios_with_partly_specified_standards", 0) + 1
            cnt["partly_specified_standards"] = cnt.get(
                "partly_specified_standards", 0) + npart
            part["distinct"].add(("partial-S", sc.ctype, sc.r, sc.form))
        if getattr(sc, "scaled", False):
            cnt["scaled_scenarios"] = cnt.get("scaled_scenarios", 0) + 1
            part["distinct"].add(("scaled", sc.ctype, sc.r, sc.c, sc.form))
        k3 = "solved:%s:%dx%d:%s" % (sc.ctype, sc.r, sc.c, sc.form)
        cnt[k3] = cnt.get(k3, 0) + 1
        if len(part["samples"]) < 1:
            part["samples"].append(dict(
                type=sc.ctype, rows=sc.r, cols=sc.c, F=sc.F, form=sc.form,
                kappa=kappa, standards=[dict(entry=s.entry, ports=s.ports,
                                             full_rows=s.full_rows,
                                             full_cols=s.full_cols,
                                             kinds=[[q.kind for q in row]
                                                    for row in s.sp])
                                        for s in sc.stds[:6]]))
    return part


def main():
    chk = R.Check(PROP)
    binary = chk.build("asan")
    total = 640 if chk.tier == "quick" else 20000
    total = int(total * chk.args.scale)
    nchunks = 16 if chk.tier == "quick" else 64
    per = max(1, total // nchunks)
    payloads = [(chk.seed, chk.tier, per, binary, chk.workroot)
                for _ in range(nchunks)]
    for part in R.pmap(work, payloads):
        chk.merge(part)
    solved = {k: v for k, v in chk.counters.items() if k.startswith("solved:")}
    for k in solved:
        del chk.counters[k]
    chk.finish(
        rule="random E-term error network per frequency (physics.py), a "
             "sufficient recipe of fully known standards verified by an "
             "independent identifiability test (nullity 1, kappa<=1e4, every "
             "leakage cell observed), each standard entered through a random "
             "applicable vnacal_new_add_* function with full/abbreviated "
             "matrices, NULL/identity/permuted port maps, const/scalar/vector "
             "parameters, m or a/b form; DUT = random complex matrix; "
             "an eighth are characterised kits (every standard a full S matrix "
             "with explicit zeros through add_mapped_matrix, >= 8 distinct "
             "parameters); "
             "a third of the scenarios with bursts of foreign parameters in "
             "the same vnacal_t before and between the standards (sparse "
             "handles); "
             "a quarter of the square / 1x2 / 2x1 scenarios with a common "
             "receiver gain and reference waves scaled by 1e-7 .. 1e4; "
             "distinct = distinct (type, rows, cols, form, entry point, "
             "row/column abbreviation, port-map kind) cells exercised",
        min_events=20,
        assumptions=["numpy.linalg is the trusted numerical base",
                     "E-term signal-flow model M = El + Er (I - S Em)^-1 S Et",
                     "ill-conditioned scenarios (kappa > 1e4) are not asserted"],
        extra=dict(solved_cells=solved))


if __name__ == "__main__":
    main()
