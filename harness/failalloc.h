/*
 * failalloc.h: forced include (-include) for the "fi" build variant.
 *
 * Redirects allocation *call sites in libvna source text* to a counting /
 * failing shim.  libyaml and libc keep the real allocator, which is exactly
 * the quantifier of property C12 ("allocations requested by the library").
 * fopen() call sites are redirected to verif_fopen() (failio.c), which can
 * deliver persistent write / read / close / open faults.
 * No change to /repo is needed.
 */
#ifndef VERIF_FAILALLOC_H
#define VERIF_FAILALLOC_H

#ifndef _GNU_SOURCE
#define _GNU_SOURCE 1
#endif
#include <stdarg.h>
#include <stdio.h>
#include <stdlib.h>
#include <string.h>

extern void *verif_malloc(size_t n, const char *file, int line);
extern void *verif_calloc(size_t n, size_t m, const char *file, int line);
extern void *verif_realloc(void *p, size_t n, const char *file, int line);
extern char *verif_strdup(const char *s, const char *file, int line);
extern int verif_vasprintf(char **strp, const char *fmt, va_list ap,
	const char *file, int line);
/* failio.c: fopen() that can deliver persistent I/O faults */
extern FILE *verif_fopen(const char *path, const char *mode,
	const char *file, int line);

#ifdef VERIF_FAILALLOC
#undef malloc
#undef calloc
#undef realloc
#undef strdup
#undef vasprintf
#define malloc(n)		verif_malloc((n), __FILE__, __LINE__)
#define calloc(n, m)		verif_calloc((n), (m), __FILE__, __LINE__)
#define realloc(p, n)		verif_realloc((p), (n), __FILE__, __LINE__)
#define strdup(s)		verif_strdup((s), __FILE__, __LINE__)
#define vasprintf(sp, f, ap)	verif_vasprintf((sp), (f), (ap), __FILE__, __LINE__)
#undef fopen
#define fopen(p, m)		verif_fopen((p), (m), __FILE__, __LINE__)
#endif /* VERIF_FAILALLOC */

#endif /* VERIF_FAILALLOC_H */
