/*
 * vnadrv: scripted interpreter over the public libvna API.
 *
 * Reads a script (one operation per line), executes each operation against
 * the library built from the repository's working tree and appends one JSON
 * line per operation to the event log on stderr (fd 2), the same stream the
 * sanitizers write their reports to, so that a report is always followed by
 * the event of the operation that produced it.
 *
 * The driver validates nothing about the arguments it passes: invalid
 * arguments are part of the workload.  It only refuses to pass a dangling
 * object pointer (freed vnacal_t / vnacal_new_t / vnadata_t), which is outside
 * every property.
 */
#define _GNU_SOURCE 1
#include <assert.h>
#include <complex.h>
#ifndef CMPLX	/* glibc hides it from clang */
#define CMPLX(x, y) __builtin_complex((double)(x), (double)(y))
#endif
#include <ctype.h>
#include <errno.h>
#include <math.h>
#include <signal.h>
#include <stdarg.h>
#include <stdbool.h>
#include <stdint.h>
#include <stdio.h>
#include <stdlib.h>
#include <string.h>
#include <unistd.h>
#include <time.h>
#include <limits.h>

#include <vnacal.h>
#include <vnaconv.h>
#include <vnadata.h>
#include <vnaerr.h>
#include <vnaproperty.h>

/* gcc defines __SANITIZE_ADDRESS__, clang only answers __has_feature() */
#if defined(__SANITIZE_ADDRESS__)
#define HAVE_LSAN 1
#elif defined(__has_feature)
#if __has_feature(address_sanitizer)
#define HAVE_LSAN 1
#endif
#endif
#ifdef HAVE_LSAN
#include <sanitizer/lsan_interface.h>
#endif

extern long verif_alloc_count, verif_alloc_arm;
extern int verif_alloc_fired, verif_alloc_suspend;
extern const char *verif_alloc_fired_file;
extern int verif_alloc_fired_line;
/* failio.c */
extern int verif_io_kind, verif_io_fired, verif_io_streams;
extern long verif_io_budget, verif_io_bytes;
extern FILE *verif_fopen(const char *path, const char *mode,
	const char *file, int line);
static int io_fired0;	/* verif_io_fired before the current op */

/* ------------------------------------------------------------------ */
/* string builder                                                      */
/* ------------------------------------------------------------------ */
typedef struct sb {
    char *s;
    size_t n, cap;
} sb_t;

static void sb_reserve(sb_t *b, size_t extra)
{
    if (b->n + extra + 1 > b->cap) {
	size_t nc = b->cap ? b->cap * 2 : 256;
	while (nc < b->n + extra + 1)
	    nc *= 2;
	b->s = realloc(b->s, nc);
	if (b->s == NULL) {
	    perror("vnadrv: realloc");
	    _exit(2);
	}
	b->cap = nc;
    }
}
static void sb_putn(sb_t *b, const char *s, size_t n)
{
    sb_reserve(b, n);
    memcpy(b->s + b->n, s, n);
    b->n += n;
    b->s[b->n] = 0;
}
static void sb_puts(sb_t *b, const char *s) { sb_putn(b, s, strlen(s)); }
static void sb_putc(sb_t *b, char c) { sb_putn(b, &c, 1); }
static void sb_printf(sb_t *b, const char *fmt, ...)
{
    va_list ap;
    char tmp[512];
    int n;
    va_start(ap, fmt);
    n = vsnprintf(tmp, sizeof(tmp), fmt, ap);
    va_end(ap);
    if (n < (int)sizeof(tmp)) {
	sb_putn(b, tmp, n);
    } else {
	sb_reserve(b, n + 1);
	va_start(ap, fmt);
	vsnprintf(b->s + b->n, n + 1, fmt, ap);
	va_end(ap);
	b->n += n;
    }
}
static void sb_reset(sb_t *b) { b->n = 0; if (b->s) b->s[0] = 0; }

/* JSON string: bytes >= 0x80 and controls are written as \u00XX, so the
 * Python side recovers the exact bytes with .encode('latin-1'). */
static void sb_jstrn(sb_t *b, const char *s, size_t n)
{
    sb_putc(b, '"');
    for (size_t i = 0; i < n; ++i) {
	unsigned char c = (unsigned char)s[i];
	if (c == '"' || c == '\\') {
	    sb_putc(b, '\\');
	    sb_putc(b, c);
	} else if (c < 0x20 || c >= 0x7f) {
	    sb_printf(b, "\\u%04x", c);
	} else {
	    sb_putc(b, c);
	}
    }
    sb_putc(b, '"');
}
static void sb_jstr(sb_t *b, const char *s)
{
    if (s == NULL)
	sb_puts(b, "null");
    else
	sb_jstrn(b, s, strlen(s));
}
static void sb_real(sb_t *b, double x)
{
    if (isnan(x))
	sb_puts(b, "NaN");
    else if (isinf(x))
	sb_puts(b, x > 0 ? "Infinity" : "-Infinity");
    else
	sb_printf(b, "%.17g", x);
}
static void sb_cplx(sb_t *b, double complex z)
{
    sb_putc(b, '[');
    sb_real(b, creal(z));
    sb_putc(b, ',');
    sb_real(b, cimag(z));
    sb_putc(b, ']');
}

/* FNV-1a 64 */
static uint64_t fnv1a(const char *s, size_t n)
{
    uint64_t h = 1469598103934665603ULL;
    for (size_t i = 0; i < n; ++i) {
	h ^= (unsigned char)s[i];
	h *= 1099511628211ULL;
    }
    return h;
}

/* ------------------------------------------------------------------ */
/* variables / objects                                                 */
/* ------------------------------------------------------------------ */
typedef enum {
    K_NONE, K_INT, K_REAL, K_VC, K_VN, K_VD, K_PR,
    K_RVEC, K_CVEC, K_IVEC, K_CMAT
} kind_t;

typedef struct var {
    char *name;
    kind_t kind;
    long ival;
    double rval;
    void *ptr;			/* vc / vn / vd object, or buffer storage */
    vnaproperty_t *root;	/* K_PR */
    struct var *parent;		/* K_VN: owning vc */
    int alive;
    int n, cells;		/* buffers: element count / (cells, n) */
    struct var *next;
} var_t;

static var_t *vars = NULL;

static var_t *var_find(const char *name)
{
    for (var_t *v = vars; v != NULL; v = v->next)
	if (strcmp(v->name, name) == 0)
	    return v;
    return NULL;
}

static void buf_free(var_t *v)
{
    if (v->kind == K_CMAT && v->ptr != NULL) {
	double complex **pp = v->ptr;
	for (int i = 0; i < v->cells; ++i)
	    free(pp[i]);
    }
    if (v->kind == K_RVEC || v->kind == K_CVEC || v->kind == K_IVEC ||
	    v->kind == K_CMAT) {
	free(v->ptr);
	v->ptr = NULL;
    }
}

static void release_object(var_t *v);

static var_t *var_get(const char *name)
{
    var_t *v = var_find(name);
    if (v == NULL) {
	v = calloc(1, sizeof(*v));
	v->name = strdup(name);
	v->next = vars;
	vars = v;
    } else {
	/* rebinding: release what it held */
	release_object(v);
	buf_free(v);
	v->kind = K_NONE;
	v->alive = 0;
	v->ptr = NULL;
	v->root = NULL;
	v->parent = NULL;
    }
    return v;
}

/* ------------------------------------------------------------------ */
/* error callback recording                                            */
/* ------------------------------------------------------------------ */
static sb_t cb_json;
static int cb_count;
static const char *cat_name(vnaerr_category_t c)
{
    switch (c) {
    case VNAERR_SYSTEM: return "SYSTEM";
    case VNAERR_USAGE: return "USAGE";
    case VNAERR_VERSION: return "VERSION";
    case VNAERR_SYNTAX: return "SYNTAX";
    case VNAERR_WARNING: return "WARNING";
    case VNAERR_MATH: return "MATH";
    case VNAERR_INTERNAL: return "INTERNAL";
    default: return "UNKNOWN";
    }
}
/*
 * What the error callback leaves in errno (0: nothing).  An application's
 * logger calls stdio, isatty, time ...: vnaerr(3) promises that errno is set
 * again after the callback returns.  Set together with errno_preset.
 */
static int verif_cb_errno = 0;

static void error_fn(const char *message, void *arg, vnaerr_category_t cat)
{
    if (cb_count++ > 0)
	sb_putc(&cb_json, ',');
    sb_putc(&cb_json, '[');
    sb_jstr(&cb_json, cat_name(cat));
    sb_putc(&cb_json, ',');
    sb_jstr(&cb_json, message);
    sb_putc(&cb_json, ',');
    sb_jstr(&cb_json, (const char *)arg);
    sb_putc(&cb_json, ']');
    if (verif_cb_errno != 0)
	errno = verif_cb_errno;
}

/* ------------------------------------------------------------------ */
/* op context                                                          */
/* ------------------------------------------------------------------ */
#define MAXTOK 8192
typedef struct tok {
    char *s;		/* token text (unescaped for strings) */
    size_t len;
    int quoted;
} tok_t;

typedef struct ctx {
    int lineno;
    int relno;		/* line number within the current case */
    const char *op;
    tok_t *argv;
    int argc;
    const char *bind;		/* name= prefix or NULL */
    sb_t ret;			/* JSON of return value */
    sb_t out;			/* JSON of extra outputs ("" = none) */
    int err;			/* errno sampled after the call */
    int skipped;
    const char *skip_why;
    int force_failed;		/* composite op: an inner call failed */
} ctx_t;

static const char *errno_name(int e)
{
    static char tmp[32];
    switch (e) {
    case 0: return "0";
    case EINVAL: return "EINVAL";
    case EDOM: return "EDOM";
    case ENOENT: return "ENOENT";
    case ENOMEM: return "ENOMEM";
    case EBADMSG: return "EBADMSG";
    case ENOPROTOOPT: return "ENOPROTOOPT";
    case ERANGE: return "ERANGE";
    case ENOSYS: return "ENOSYS";
    case EACCES: return "EACCES";
    case EISDIR: return "EISDIR";
    case ENOTDIR: return "ENOTDIR";
    case EEXIST: return "EEXIST";
    case EIO: return "EIO";
    case ENOSPC: return "ENOSPC";
    case EBADF: return "EBADF";
    case EPERM: return "EPERM";
    case EFBIG: return "EFBIG";
    case ENAMETOOLONG: return "ENAMETOOLONG";
    case EMFILE: return "EMFILE";
    case ENOTTY: return "ENOTTY";
    case ENFILE: return "ENFILE";
    default:
	snprintf(tmp, sizeof(tmp), "E%d", e);
	return tmp;
    }
}

static FILE *logfp;
static char cur_case[256] = "";
static int watchdog_secs = 60;
static volatile int cur_line = 0;
static const char *volatile cur_op = "";

static void die(ctx_t *c, const char *fmt, ...)
{
    va_list ap;
    fprintf(logfp, "{\"driver_error\":true,\"i\":%d,\"msg\":\"",
	    c ? c->lineno : 0);
    va_start(ap, fmt);
    vfprintf(logfp, fmt, ap);
    va_end(ap);
    fprintf(logfp, "\"}\n");
    fflush(logfp);
    _exit(2);
}

static void on_alarm(int sig)
{
    char msg[256];
    int n = snprintf(msg, sizeof(msg),
	    "{\"timeout\":true,\"i\":%d,\"op\":\"%s\",\"case\":\"%s\"}\n",
	    cur_line, cur_op, cur_case);
    (void)sig;
    if (write(2, msg, n) < 0) { }
    _exit(3);
}

/* ------------------------------------------------------------------ */
/* argument access                                                     */
/* ------------------------------------------------------------------ */
static int is_null_tok(const tok_t *t)
{
    return !t->quoted && strcmp(t->s, "NULL") == 0;
}

static const tok_t *arg(ctx_t *c, int i)
{
    if (i >= c->argc)
	die(c, "%s: missing argument %d", c->op, i);
    return &c->argv[i];
}

static long a_int(ctx_t *c, int i)
{
    const tok_t *t = arg(c, i);
    if (t->s[0] == '$') {
	var_t *v = var_find(t->s + 1);
	if (v == NULL)
	    die(c, "%s: unbound %s", c->op, t->s);
	if (v->kind == K_INT)
	    return v->ival;
	if (v->kind == K_REAL)
	    return (long)v->rval;
	die(c, "%s: %s is not a number", c->op, t->s);
    }
    char *end;
    long v = strtol(t->s, &end, 0);
    if (*end != 0)
	die(c, "%s: bad integer '%s'", c->op, t->s);
    return v;
}

static double tok_real(ctx_t *c, const tok_t *t)
{
    if (t->s[0] == '$') {
	var_t *v = var_find(t->s + 1);
	if (v == NULL)
	    die(c, "%s: unbound %s", c->op, t->s);
	if (v->kind == K_INT)
	    return (double)v->ival;
	if (v->kind == K_REAL)
	    return v->rval;
	die(c, "%s: %s is not a number", c->op, t->s);
    }
    char *end;
    double v = strtod(t->s, &end);
    if (*end != 0)
	die(c, "%s: bad real '%s'", c->op, t->s);
    return v;
}
static double a_real(ctx_t *c, int i) { return tok_real(c, arg(c, i)); }
static double complex a_cplx(ctx_t *c, int i)
{
    double re = a_real(c, i), im = a_real(c, i + 1);
    return CMPLX(re, im);
}

/* string argument: quoted token; NULL token -> NULL pointer */
static const char *a_str(ctx_t *c, int i)
{
    const tok_t *t = arg(c, i);
    if (is_null_tok(t))
	return NULL;
    return t->s;
}

/* object argument; returns NULL and marks the op skipped if dead */
static var_t *a_objvar(ctx_t *c, int i, kind_t kind)
{
    const tok_t *t = arg(c, i);
    if (t->s[0] != '$')
	die(c, "%s: argument %d must be $object", c->op, i);
    var_t *v = var_find(t->s + 1);
    if (v == NULL)
	die(c, "%s: unbound %s", c->op, t->s);
    if (v->kind != kind)
	die(c, "%s: %s has wrong kind", c->op, t->s);
    if (!v->alive && kind != K_PR) {
	c->skipped = 1;
	c->skip_why = "dead object";
	return NULL;
    }
    return v;
}
#define OBJ(var, i, kind) \
    var_t *var = a_objvar(c, (i), (kind)); \
    if (var == NULL) return;

/* buffer argument: @name or NULL */
static var_t *a_buf(ctx_t *c, int i, kind_t kind)
{
    const tok_t *t = arg(c, i);
    if (is_null_tok(t))
	return NULL;
    if (t->s[0] != '@')
	die(c, "%s: argument %d must be @buffer or NULL", c->op, i);
    var_t *v = var_find(t->s + 1);
    if (v == NULL)
	die(c, "%s: unbound buffer %s", c->op, t->s);
    if (v->kind != kind)
	die(c, "%s: buffer %s has wrong kind", c->op, t->s);
    return v;
}
#define BUFP(v) ((v) != NULL ? (v)->ptr : NULL)

/* ------------------------------------------------------------------ */
/* result helpers                                                      */
/* ------------------------------------------------------------------ */
static void ret_int(ctx_t *c, long v)
{
    sb_printf(&c->ret, "%ld", v);
    if (c->bind != NULL) {
	var_t *x = var_get(c->bind);
	x->kind = K_INT;
	x->ival = v;
    }
}
static void ret_real(ctx_t *c, double v)
{
    sb_real(&c->ret, v);
    if (c->bind != NULL) {
	var_t *x = var_get(c->bind);
	x->kind = K_REAL;
	x->rval = v;
    }
}
static void ret_cplx(ctx_t *c, double complex v) { sb_cplx(&c->ret, v); }
static void ret_str(ctx_t *c, const char *s) { sb_jstr(&c->ret, s); }
static void ret_bool(ctx_t *c, int b) { sb_puts(&c->ret, b ? "true" : "false"); }

/*
 * What errno holds when the library is entered.  Scripts may set it to a value
 * no library or libc function produces ("errno_preset N"): a caller's errno is
 * whatever an earlier, unrelated call left behind, and no documented result
 * depends on it.  A call that leaves errno untouched is reported as errno 0.
 */
static int verif_errno_preset = 0;
#define ERRNO_PRESET()	(errno = verif_errno_preset)
#define ERRNO_SEEN()	(errno == verif_errno_preset ? 0 : errno)
#define CALL(stmt) do { ERRNO_PRESET(); stmt; c->err = ERRNO_SEEN(); } while (0)

static void out_rvec(sb_t *b, const double *v, int n)
{
    sb_putc(b, '[');
    for (int i = 0; i < n; ++i) {
	if (i) sb_putc(b, ',');
	sb_real(b, v[i]);
    }
    sb_putc(b, ']');
}
static void out_cvec(sb_t *b, const double complex *v, int n)
{
    sb_putc(b, '[');
    for (int i = 0; i < n; ++i) {
	if (i) sb_putc(b, ',');
	sb_cplx(b, v[i]);
    }
    sb_putc(b, ']');
}

/* ------------------------------------------------------------------ */
/* object release                                                      */
/* ------------------------------------------------------------------ */
static void kill_children(var_t *vc)
{
    for (var_t *v = vars; v != NULL; v = v->next)
	if (v->kind == K_VN && v->parent == vc && v->alive) {
	    v->alive = 0;
	    v->ptr = NULL;
	}
}

static void release_object(var_t *v)
{
    switch (v->kind) {
    case K_VC:
	if (v->alive) {
	    kill_children(v);	/* vnacal_free frees its vnacal_new_t's */
	    vnacal_free(v->ptr);
	}
	break;
    case K_VN:
	if (v->alive)
	    vnacal_new_free(v->ptr);
	break;
    case K_VD:
	if (v->alive)
	    vnadata_free(v->ptr);
	break;
    case K_PR:
	if (v->root != NULL)
	    (void)vnaproperty_delete(&v->root, ".");
	break;
    default:
	break;
    }
    v->alive = 0;
    v->ptr = (v->kind == K_VC || v->kind == K_VN || v->kind == K_VD) ?
	NULL : v->ptr;
}

static void free_all(void)
{
    /* vnacal_new_t first (legal either way), then the rest */
    for (var_t *v = vars; v != NULL; v = v->next)
	if (v->kind == K_VN)
	    release_object(v);
    for (var_t *v = vars; v != NULL; v = v->next)
	release_object(v);
    while (vars != NULL) {
	var_t *v = vars;
	vars = v->next;
	buf_free(v);
	free(v->name);
	free(v);
    }
}

/* ------------------------------------------------------------------ */
/* ops                                                                 */
/* ------------------------------------------------------------------ */
static int retrying = 0;	/* the current line is the retry of a faulted one */
static int fault_retry = 0;

/*
 * What probe_all() needs to know: the parameter handles the script created
 * and a few frequencies it used (first / middle / last value of every real
 * vector buffer).
 */
#define MAX_PROBE_PARAMS 1024
#define MAX_PROBE_FREQS 24
static struct { var_t *vc; int handle; } probe_params[MAX_PROBE_PARAMS];
static int n_probe_params = 0;
static double probe_freqs[MAX_PROBE_FREQS];
static int n_probe_freqs = 0;

static void note_param(var_t *vc, int handle)
{
    if (handle >= 0 && n_probe_params < MAX_PROBE_PARAMS) {
	probe_params[n_probe_params].vc = vc;
	probe_params[n_probe_params].handle = handle;
	++n_probe_params;
    }
}
static void note_freqs(const double *v, int n)
{
    int idx[3] = { 0, n / 2, n - 1 };

    for (int k = 0; k < 3 && n > 0; ++k) {
	double f = v[idx[k]];
	int seen = 0;

	for (int i = 0; i < n_probe_freqs && i < MAX_PROBE_FREQS; ++i)
	    if (probe_freqs[i] == f)
		seen = 1;
	if (!seen)
	    probe_freqs[n_probe_freqs++ % MAX_PROBE_FREQS] = f;
	if (n_probe_freqs >= 2 * MAX_PROBE_FREQS)
	    n_probe_freqs = MAX_PROBE_FREQS;
    }
}
#include "ops_misc.inc"
#include "ops_vnadata.inc"
#include "ops_prop.inc"
#include "ops_vnacal.inc"
#include "ops_conv.inc"
#include "ops_peek.inc"
#include "opsx_all.inc"	/* generated: every harness/opsx_*.inc */

/*
 * probe_all: "all objects remain usable".  Called between a call that failed
 * under an injected allocation fault and its retry: every live object answers
 * every getter (the dumps the observer ops use), and every parameter handle
 * the script created is evaluated at a few frequencies.  Results are thrown
 * away -- what counts is that nothing crashes and no sanitizer fires on the
 * state the failed call left behind.  No allocation is counted or failed
 * while probing.
 */
static void probe_all(void)
{
    sb_t tmp = {0};
    int nf = n_probe_freqs < MAX_PROBE_FREQS ? n_probe_freqs : MAX_PROBE_FREQS;

    ++verif_alloc_suspend;
    for (var_t *v = vars; v != NULL; v = v->next) {
	sb_reset(&tmp);
	switch (v->kind) {
	case K_VD:
	    if (v->alive)
		dump_vnadata_i(&tmp, v->ptr);
	    break;
	case K_PR:
	    dump_prop(&tmp, v->root, 0, 0);
	    break;
	case K_VC:
	    if (v->alive)
		dump_vnacal_sb(&tmp, v->ptr);
	    break;
	default:
	    break;
	}
    }
    for (int i = 0; i < n_probe_params; ++i) {
	var_t *vc = probe_params[i].vc;

	if (vc == NULL || !vc->alive)
	    continue;
	for (int k = 0; k < nf; ++k)
	    (void)vnacal_get_parameter_value(vc->ptr, probe_params[i].handle,
		    probe_freqs[k]);
    }
    --verif_alloc_suspend;
    free(tmp.s);
}

typedef void op_fn(ctx_t *c);
static const struct optab {
    const char *name;
    op_fn *fn;
} optab[] = {
#define OP(n) {#n, op_##n},
#include "ops_list.inc"
#undef OP
    {NULL, NULL}
};

static op_fn *find_op(const char *name)
{
    /* small table; linear search is fine but cache by first-call */
    for (const struct optab *o = optab; o->name != NULL; ++o)
	if (strcmp(o->name, name) == 0)
	    return o->fn;
    return NULL;
}

/* ------------------------------------------------------------------ */
/* tokenizer                                                           */
/* ------------------------------------------------------------------ */
static int hexval(int ch)
{
    if (ch >= '0' && ch <= '9') return ch - '0';
    if (ch >= 'a' && ch <= 'f') return ch - 'a' + 10;
    if (ch >= 'A' && ch <= 'F') return ch - 'A' + 10;
    return -1;
}

/* split line in place; returns token count */
static int tokenize(char *line, tok_t *tv, int max)
{
    int n = 0;
    char *p = line;
    for (;;) {
	while (*p == ' ' || *p == '\t' || *p == '\n' || *p == '\r')
	    ++p;
	if (*p == 0)
	    break;
	if (*p == '#' && n == 0)
	    break;
	if (n >= max) {
	    fprintf(logfp, "{\"driver_error\":true,\"msg\":\"too many tokens\"}\n");
	    _exit(2);
	}
	if (*p == '"') {
	    char *w = ++p;
	    tv[n].s = w;
	    tv[n].quoted = 1;
	    while (*p != 0 && *p != '"') {
		if (*p == '\\' && p[1] != 0) {
		    ++p;
		    switch (*p) {
		    case 'n': *w++ = '\n'; ++p; break;
		    case 't': *w++ = '\t'; ++p; break;
		    case 'r': *w++ = '\r'; ++p; break;
		    case '0': *w++ = 0; ++p; break;
		    case 'x':
			if (hexval(p[1]) >= 0 && hexval(p[2]) >= 0) {
			    *w++ = (char)(hexval(p[1]) * 16 + hexval(p[2]));
			    p += 3;
			} else {
			    *w++ = 'x';
			    ++p;
			}
			break;
		    default: *w++ = *p++; break;
		    }
		} else {
		    *w++ = *p++;
		}
	    }
	    if (*p == '"')
		++p;
	    tv[n].len = w - tv[n].s;
	    *w = 0;
	    ++n;
	    if (*p != 0)
		++p;	/* skip the separator that was overwritten or follows */
	} else {
	    tv[n].s = p;
	    tv[n].quoted = 0;
	    while (*p != 0 && *p != ' ' && *p != '\t' && *p != '\n' &&
		    *p != '\r')
		++p;
	    tv[n].len = p - tv[n].s;
	    if (*p != 0)
		*p++ = 0;
	    ++n;
	}
    }
    return n;
}

/* ------------------------------------------------------------------ */
/* main loop                                                           */
/* ------------------------------------------------------------------ */
static int leakcheck = 1;

/*
 * LeakSanitizer treats every word of the live stack region as a root, and
 * the frames of returned library functions (a yaml_emitter_t, a parser
 * state ...) stay below the stack pointer until something overwrites them:
 * clear that region before asking, so that a block only such a stale frame
 * points to is reported.
 */
static void __attribute__((noinline)) scrub_stack(void)
{
    volatile char pad[384 * 1024];

    for (size_t i = 0; i < sizeof(pad); ++i)
	pad[i] = 0;
}

static void end_case(void)
{
    int leaks = 0;
    free_all();
    n_probe_params = 0;
    n_probe_freqs = 0;
#ifdef HAVE_LSAN
    if (leakcheck) {
	scrub_stack();
	leaks = __lsan_do_recoverable_leak_check();
    }
#endif
    if (cur_case[0] != 0) {
	fprintf(logfp, "{\"case_end\":\"%s\",\"leaks\":%d}\n", cur_case, leaks);
	fflush(logfp);
    }
    /* LSan keeps reporting a leaked block at every later check: end the
     * process so that the runner resumes the remaining cases in a fresh one */
    if (leaks)
	_exit(4);
}

static int will_retry = 0;
static long op_ms = 0;
static void emit_event(ctx_t *c, int faulted, long a0, long a1)
{
    sb_t line = {0};
    sb_printf(&line, "{\"i\":%d,\"op\":\"%s\"", c->lineno, c->op);
    if (verif_io_fired > io_fired0)
	sb_printf(&line, ",\"iofired\":%d", verif_io_fired - io_fired0);
    if (c->skipped) {
	sb_printf(&line, ",\"skipped\":\"%s\"",
		c->skip_why ? c->skip_why : "");
    } else {
	sb_puts(&line, ",\"ret\":");
	sb_puts(&line, c->ret.n ? c->ret.s : "null");
	sb_printf(&line, ",\"errno\":\"%s\"", errno_name(c->err));
	if (cb_count > 0) {
	    sb_puts(&line, ",\"cb\":[");
	    sb_puts(&line, cb_json.s);
	    sb_putc(&line, ']');
	}
	if (c->out.n > 0) {
	    sb_puts(&line, ",\"out\":");
	    sb_puts(&line, c->out.s);
	}
    }
#ifdef VERIF_FAILALLOC
    sb_printf(&line, ",\"a0\":%ld,\"a1\":%ld", a0, a1);
    if (will_retry)
	sb_puts(&line, ",\"retried\":true");
    if (op_ms >= 50)
	sb_printf(&line, ",\"ms\":%ld", op_ms);
    if (faulted) {
	sb_printf(&line, ",\"fault\":\"%s:%d\"",
		verif_alloc_fired_file ? verif_alloc_fired_file : "?",
		verif_alloc_fired_line);
    }
#else
    (void)faulted; (void)a0; (void)a1;
#endif
    sb_puts(&line, "}\n");
    fwrite(line.s, 1, line.n, logfp);
    fflush(logfp);
    free(line.s);
}

int main(int argc, char **argv)
{
    FILE *in = stdin;
    char *line = NULL;
    size_t cap = 0;
    ssize_t len;
    int lineno = 0;
    int case_line0 = 0;
    static tok_t tv[MAXTOK];
    ctx_t ctx;

    logfp = stderr;
    setvbuf(stderr, NULL, _IOLBF, 0);
    for (int i = 1; i < argc; ++i) {
	if (strcmp(argv[i], "--workdir") == 0 && i + 1 < argc) {
	    if (chdir(argv[++i]) == -1) {
		perror(argv[i]);
		return 2;
	    }
	} else if (strcmp(argv[i], "--log") == 0 && i + 1 < argc) {
	    if ((logfp = fopen(argv[++i], "w")) == NULL) {
		perror(argv[i]);
		return 2;
	    }
	} else if (strcmp(argv[i], "--no-leakcheck") == 0) {
	    leakcheck = 0;
	} else if (argv[i][0] != '-') {
	    if ((in = fopen(argv[i], "r")) == NULL) {
		perror(argv[i]);
		return 2;
	    }
	} else {
	    fprintf(stderr, "usage: vnadrv [--workdir d] [--log f] [script]\n");
	    return 2;
	}
    }
    signal(SIGALRM, on_alarm);
    memset(&ctx, 0, sizeof(ctx));

    while ((len = getline(&line, &cap, in)) != -1) {
	int n, first = 0;
	char *bind = NULL;
	ctx_t *c = &ctx;

	++lineno;
	if (line[0] == '!') {
	    n = tokenize(line, tv, MAXTOK);
	    if (n >= 2 && strcmp(tv[0].s, "!case") == 0) {
		end_case();
		verif_io_kind = 0;
		verif_errno_preset = 0;
		verif_cb_errno = 0;
		snprintf(cur_case, sizeof(cur_case), "%s", tv[1].s);
		case_line0 = lineno;
		fprintf(logfp, "{\"case\":\"%s\",\"i\":%d}\n", cur_case, lineno);
		fflush(logfp);
	    } else if (n >= 2 && strcmp(tv[0].s, "!watchdog") == 0) {
		watchdog_secs = atoi(tv[1].s);
	    } else if (n >= 2 && strcmp(tv[0].s, "!leakcheck") == 0) {
		leakcheck = atoi(tv[1].s);
	    } else if (n >= 2 && strcmp(tv[0].s, "!faultretry") == 0) {
		fault_retry = atoi(tv[1].s);
	    }
	    continue;
	}
	retrying = 0;
	/* keep a copy for a possible retry under fault injection */
	char *copy = NULL;
	if (fault_retry)
	    copy = strdup(line);
retry:
	n = tokenize(line, tv, MAXTOK);
	if (n == 0) {
	    free(copy);
	    continue;
	}
	/* name=op */
	first = 0;
	bind = NULL;
	{
	    char *eq = strchr(tv[0].s, '=');
	    if (!tv[0].quoted && eq != NULL) {
		*eq = 0;
		bind = tv[0].s;
		if (eq[1] != 0) {
		    tv[0].s = eq + 1;
		} else {
		    first = 1;
		}
	    }
	}
	if (first >= n) {
	    free(copy);
	    continue;
	}
	c->lineno = lineno;
	c->relno = lineno - case_line0;
	c->op = tv[first].s;
	c->argv = &tv[first + 1];
	c->argc = n - first - 1;
	c->bind = bind;
	c->err = 0;
	c->skipped = 0;
	c->skip_why = NULL;
	c->force_failed = 0;
	sb_reset(&c->ret);
	sb_reset(&c->out);
	sb_reset(&cb_json);
	cb_count = 0;
	op_fn *fn = find_op(c->op);
	if (fn == NULL)
	    die(c, "unknown op '%s'", c->op);
	cur_line = lineno;
	cur_op = c->op;
	long a0 = verif_alloc_count;
	verif_alloc_fired = 0;
	io_fired0 = verif_io_fired;
	if (watchdog_secs > 0)
	    alarm(watchdog_secs);
	struct timespec ts0, ts1;
	clock_gettime(CLOCK_MONOTONIC, &ts0);
	fn(c);
	alarm(0);
	clock_gettime(CLOCK_MONOTONIC, &ts1);
	op_ms = (ts1.tv_sec - ts0.tv_sec) * 1000 +
	    (ts1.tv_nsec - ts0.tv_nsec) / 1000000;
	long a1 = verif_alloc_count;
	int faulted = verif_alloc_fired;
	if (faulted)
	    verif_alloc_arm = 0;
	int failed = c->ret.n > 0 && (strcmp(c->ret.s, "-1") == 0 ||
		strcmp(c->ret.s, "null") == 0 ||
		strncmp(c->ret.s, "Infinity", 8) == 0 ||
		strncmp(c->ret.s, "[Infinity", 9) == 0);
	if (c->force_failed)
	    failed = 1;
	will_retry = faulted && failed && fault_retry && copy != NULL;
	emit_event(c, faulted, a0, a1);
	if (will_retry) {
	    will_retry = 0;
	    probe_all();
	    /* re-execute the same line once with the fault disarmed */
	    memcpy(line, copy, strlen(copy) + 1);
	    free(copy);
	    copy = NULL;
	    retrying = 1;
	    goto retry;
	}
	free(copy);
    }
    end_case();
    fprintf(logfp, "{\"end\":true}\n");
    fflush(logfp);
    free(line);
    free(ctx.ret.s);
    free(ctx.out.s);
    free(cb_json.s);
    cb_json.s = NULL;
    return 0;
}
