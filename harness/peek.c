/* peek.c: optional access to internal routines (see ops_peek.inc) */
#include <complex.h>
#ifndef PEEK_STUB
#include "archdep.h"
#include "vnacal_internal.h"
#include "vnacommon_internal.h"
int peek_available(void) { return 1; }
int peek_rfi(const double *xp, const double complex *yp, int n, int m,
	int *segment, double x, double complex *result)
{
    *result = _vnacal_rfi(xp, (double complex *)yp, n, m, segment, x);
    return 0;
}
int peek_lu(double complex *a, int *row_index, int n, double complex *det)
{
    *det = _vnacommon_lu(a, row_index, n);
    return 0;
}
#else
int peek_available(void) { return 0; }
int peek_rfi(const double *xp, const double complex *yp, int n, int m,
	int *segment, double x, double complex *result) { return -1; }
int peek_lu(double complex *a, int *row_index, int n, double complex *det)
{ return -1; }
#endif
