/*
 * failio.c: persistent I/O faults on stdio streams (see failalloc.h).
 *
 * verif_fopen() is what every fopen() call site in libvna's source text
 * becomes in the "fi" build, and what the driver itself uses for the FILE*
 * it hands to vnadata_fload/fsave and the YAML import/export functions.
 * While no fault is armed it is plain fopen().  While one is armed the
 * stream is a fopencookie() stream over the real file descriptor:
 *
 *   'w' N   the first N bytes written reach the file, every later write
 *           fails with ENOSPC -- persistently, like a full disk.  The stream
 *           keeps its default full buffering, so the error surfaces where it
 *           would in real life: at the fprintf / fwrite (also inside libyaml)
 *           that flushes the buffer, or at fclose.
 *   'r' N   the first N bytes can be read, every later read fails with EIO
 *   'c'     everything works but the final close reports EIO (NFS-style)
 *   'o'     fopen itself fails with EMFILE
 */
#define _GNU_SOURCE 1
#include <errno.h>
#include <fcntl.h>
#include <stdio.h>
#include <stdlib.h>
#include <string.h>
#include <sys/types.h>
#include <unistd.h>

int verif_io_kind = 0;		/* 0 = off, else 'w' 'r' 'c' 'o' */
long verif_io_budget = 0;	/* bytes that still succeed */
int verif_io_fired = 0;		/* failures delivered since armed */
int verif_io_streams = 0;	/* streams opened under the fault since armed */
long verif_io_bytes = 0;	/* bytes transferred on those streams */

typedef struct {
    int fd;
    int kind;
} vio_t;

static ssize_t vio_read(void *cookie, char *buf, size_t n)
{
    vio_t *v = cookie;
    ssize_t r;

    if (v->kind == 'r') {
	if (verif_io_budget <= 0) {
	    ++verif_io_fired;
	    errno = EIO;
	    return -1;
	}
	if ((long)n > verif_io_budget)
	    n = (size_t)verif_io_budget;
    }
    r = read(v->fd, buf, n);
    if (r > 0) {
	verif_io_bytes += r;
	if (v->kind == 'r')
	    verif_io_budget -= r;
    }
    return r;
}

static ssize_t vio_write(void *cookie, const char *buf, size_t n)
{
    vio_t *v = cookie;
    size_t want = n;
    ssize_t r;

    if (v->kind == 'w') {
	if (verif_io_budget <= 0) {
	    ++verif_io_fired;
	    errno = ENOSPC;
	    return 0;
	}
	if ((long)n > verif_io_budget)
	    n = (size_t)verif_io_budget;
    }
    r = write(v->fd, buf, n);
    if (r > 0) {
	verif_io_bytes += r;
	if (v->kind == 'w')
	    verif_io_budget -= r;
    }
    if (r >= 0 && (size_t)r < want && v->kind == 'w') {
	++verif_io_fired;
	errno = ENOSPC;
    }
    return r < 0 ? 0 : r;
}

static int vio_close(void *cookie)
{
    vio_t *v = cookie;
    int kind = v->kind;
    int rc = close(v->fd);

    free(v);
    if (kind == 'c') {
	++verif_io_fired;
	errno = EIO;
	return -1;
    }
    return rc;
}

FILE *verif_fopen(const char *path, const char *mode, const char *file,
	int line)
{
    cookie_io_functions_t fns = { vio_read, vio_write, NULL, vio_close };
    vio_t *v;
    FILE *fp;
    int flags;

    (void)file; (void)line;
    if (verif_io_kind == 0)
	return (fopen)(path, mode);
    if (verif_io_kind == 'o') {
	++verif_io_fired;
	errno = EMFILE;
	return NULL;
    }
    if (mode[0] == 'r')
	flags = O_RDONLY;
    else if (mode[0] == 'w')
	flags = O_WRONLY | O_CREAT | O_TRUNC;
    else
	return (fopen)(path, mode);
    if ((v = (malloc)(sizeof(*v))) == NULL)
	return NULL;
    if ((v->fd = open(path, flags, 0666)) == -1) {
	int e = errno;
	free(v);
	errno = e;
	return NULL;
    }
    v->kind = verif_io_kind;
    if ((fp = fopencookie(v, mode, fns)) == NULL) {
	int e = errno;
	(void)close(v->fd);
	free(v);
	errno = e;
	return NULL;
    }
    ++verif_io_streams;
    return fp;
}
