/*
 * failalloc.c: counting / failing allocation shim (see failalloc.h).
 * Compiled into every variant; only the "fi" variant routes libvna's
 * allocation call sites here.
 */
#define _GNU_SOURCE 1
#include <errno.h>
#include <stdarg.h>
#include <stdio.h>
#include <stdlib.h>
#include <string.h>

long verif_alloc_count = 0;	/* libvna allocation calls so far */
long verif_alloc_arm = 0;	/* fail the call with this ordinal (0 = off) */
int verif_alloc_fired = 0;	/* set when the armed fault has fired */
int verif_alloc_suspend = 0;	/* >0: neither count nor fail (observers) */
const char *verif_alloc_fired_file = NULL;
int verif_alloc_fired_line = 0;
const char *verif_alloc_last_file = NULL;
int verif_alloc_last_line = 0;

static int should_fail(const char *file, int line)
{
    if (verif_alloc_suspend > 0)
	return 0;
    ++verif_alloc_count;
    verif_alloc_last_file = file;
    verif_alloc_last_line = line;
    if (verif_alloc_arm != 0 && verif_alloc_count == verif_alloc_arm) {
	verif_alloc_fired = 1;
	verif_alloc_fired_file = file;
	verif_alloc_fired_line = line;
	errno = ENOMEM;
	return 1;
    }
    return 0;
}

void *verif_malloc(size_t n, const char *file, int line)
{
    if (should_fail(file, line))
	return NULL;
    return (malloc)(n);
}

void *verif_calloc(size_t n, size_t m, const char *file, int line)
{
    if (should_fail(file, line))
	return NULL;
    return (calloc)(n, m);
}

void *verif_realloc(void *p, size_t n, const char *file, int line)
{
    if (should_fail(file, line))
	return NULL;
    return (realloc)(p, n);
}

char *verif_strdup(const char *s, const char *file, int line)
{
    if (should_fail(file, line))
	return NULL;
    return (strdup)(s);
}

int verif_vasprintf(char **strp, const char *fmt, va_list ap,
	const char *file, int line)
{
    if (should_fail(file, line)) {
	*strp = NULL;
	return -1;
    }
    return (vasprintf)(strp, fmt, ap);
}
